#!/usr/bin/env python3
"""C05 - authenticated decryption rejects every modification.
TLC: Aead.tla (ideal-MAC contract, one adversary action, streaming decryption in every chunking, hold-back of the tag).
Binding: for SM4-GCM, AES-GCM, SM4-CCM, SM4-CBC+SM3-HMAC, SM4-CTR+SM3-HMAC (one-shot and streaming): the untouched output of the
reference encryption must be accepted with the right plaintext (TLC recomputes it from Modes.tla), and every member of the
single-bit-flip neighbourhood of (nonce, AAD, ciphertext, tag), every truncation and one-byte extension must be refused
(contract: a touched tuple is never accepted) -- validated against CryptoTrace.tla."""
from common import *
import cryptolib as CL
import constructions as K
import json

SCHEMES = [("gcm_dec", "sm4", "oneshot"), ("gcm_dec", "sm4", "stream"), ("gcm_dec", "aes", "oneshot"), ("ccm_dec", "sm4", "oneshot"),
           ("cbc_hmac_dec", "sm4", "stream"), ("ctr_hmac_dec", "sm4", "stream")]


def gen(c, chunkings):
    rng = c.rng
    rb = lambda n: bytes(rng.getrandbits(8) for _ in range(n))
    T = K.Tab()
    out = []

    def add(what, base, **kw):
        kw["id"] = len(out) + 1
        kw["_what"] = what
        kw["_base"] = base
        out.append(kw)
    lens = [0, 1, 16, 33, 100] if c.quick else [0, 1, 15, 16, 17, 64, 100, 255]
    for f, cipher, api in SCHEMES:
        for ml in lens:
            taglens = [16, 12] if f == "gcm_dec" else ([16, 4, 10] if f == "ccm_dec" else [32])
            if not c.quick and f == "gcm_dec":
                taglens = [12, 13, 14, 15, 16]
            for tl in taglens:
                p = {"c": cipher, "key": rb(16 if cipher == "sm4" else rng.choice([16, 24, 32])), "aad": rb(rng.choice([0, 1, 16, 21]))}
                if f == "gcm_dec":
                    p.update(iv=rb(rng.choice([12, 12, 16, 7])), taglen=tl)
                elif f == "ccm_dec":
                    p.update(iv=rb(rng.randrange(7, 14)), taglen=tl)
                else:
                    p.update(iv=rb(16), mackey=rb(32))
                m = rb(ml)
                if f == "gcm_dec":
                    body = b"".join(K.gcm_enc(T, cipher, p["key"], p["iv"], p["aad"], m, tl))
                elif f == "ccm_dec":
                    body = b"".join(K.ccm_enc(T, cipher, p["key"], p["iv"], p["aad"], m, tl))
                elif f == "cbc_hmac_dec":
                    body = K.cbc_hmac_enc(T, p["key"], p["mackey"], p["iv"], p["aad"], m)
                else:
                    body = K.ctr_hmac_enc(T, p["key"], p["mackey"], p["iv"], p["aad"], m)
                base = "%s:%s:%s:len%d:tag%d" % (f, cipher, api, ml, tl)

                def case(what, iv=None, aad=None, b=None, touched=1, ch=None, inplace=0, taglen=None):
                    q = dict(p)
                    if taglen is not None:
                        q["taglen"] = taglen
                    q["iv"] = p["iv"] if iv is None else iv
                    q["aad"] = p["aad"] if aad is None else aad
                    bb = body if b is None else b
                    kw = {k: (CL.hx(v) if isinstance(v, (bytes, bytearray)) else v) for k, v in q.items()}
                    if api == "stream":
                        ch = ch or CL.scale(rng.choice(chunkings), 16)
                        cuts, acc = [], 0
                        for r in ch:
                            r = min(r, len(bb) - acc)
                            cuts.append(r)
                            acc += r
                        kw["chunks"] = ",".join(map(str, cuts))
                    if inplace:
                        kw["inplace"] = 1
                    add(what, base, f=f, api=api, msg=CL.hx(bb), touched=touched, **kw)
                case("untouched", touched=0)
                if api == "stream":
                    # the genuine tuple is accepted in every chunking TLC enumerates, at three scales: pieces below, at and above the held-back tag size
                    seen = set()
                    for unit in (5, 16, 40):
                        for chk in chunkings:
                            ch, acc = [], 0
                            for r in CL.scale(chk, unit):           # as the driver will cut the body
                                r = min(r, len(body) - acc); acc += r
                                if r or not ch or ch[-1]:
                                    ch.append(r)
                            if tuple(ch) not in seen:
                                seen.add(tuple(ch))
                                case("untouched:chunks=%s" % ",".join(map(str, ch)), touched=0, ch=list(ch))
                # the complete single-bit-flip neighbourhood (quick: every bit of nonce, AAD, tag and of up to 24 body bytes)
                for i in range(len(p["iv"]) * 8):
                    x = bytearray(p["iv"]); x[i // 8] ^= 1 << (i % 8)
                    case("iv:bit%d" % i, iv=bytes(x))
                for i in range(len(p["aad"]) * 8):
                    x = bytearray(p["aad"]); x[i // 8] ^= 1 << (i % 8)
                    case("aad:bit%d" % i, aad=bytes(x))
                nb = len(body) * 8
                bits = range(nb) if ((not c.quick and nb <= 8 * 120) or nb <= 8 * 56) else (list(range(0, 8 * 8)) + list(range(nb - 8 * 48, nb)) + ([] if c.quick else list(range(64, nb - 384, 5))))
                for i in bits:
                    x = bytearray(body); x[i // 8] ^= 1 << (i % 8)
                    case("body:bit%d" % i, b=bytes(x))
                for cut in (range(1, len(body) + 1) if not c.quick else sorted({1, 2, tl if tl < len(body) else 1, len(body)} - {0})):
                    if cut <= len(body):
                        case("trunc:%d" % cut, b=body[:len(body) - cut])
                for extra in (0, 255):
                    case("extend:%d" % extra, b=body + bytes([extra]))
                # a tag length no GCM / CCM tag has (17, 32 octets): refused, not compared beyond the 16-octet block the implementation computed
                if f in ("gcm_dec", "ccm_dec") and api == "oneshot" and tl == 16:
                    for big in (17, 32):
                        case("taglen%d" % big, b=body + bytes(big - 16), taglen=big)
                # the boundary between associated data and ciphertext moved (both are changed, their concatenation is not): the last k AAD octets become the first k
                # ciphertext octets, or the other way round
                for k in (1, 16):
                    if len(p["aad"]) >= k:
                        case("shift:aad>body:%d" % k, aad=p["aad"][:len(p["aad"]) - k], b=p["aad"][len(p["aad"]) - k:] + body)
                    if len(body) - tl >= k:
                        case("shift:body>aad:%d" % k, aad=p["aad"] + body[:k], b=body[k:])
                # the tag (last tl bytes of the body) changed in ways that cancel in a byte sum / XOR fold / order-insensitive or shortened comparison
                for nm, tx in CL.cancelling(body[len(body) - tl:]):
                    case("tag:%s" % nm, b=body[:len(body) - tl] + tx)
    return out


def cli_part(c, prop, which, tag):
    """the command line tools as a user runs them (tools/clilib.py): files of sizes around the tools' 4096-byte buffer, both ways, judged by CryptoTrace.tla"""
    import clilib
    sizes = [0, 1, 15, 16, 17, 4080, 4095, 4096, 4097, 4111, 4112, 4113, 8191, 8192, 8193, 10000] + ([] if c.quick else [12287, 12288, 12289, 16383, 16384, 16385, 65535, 65536, 65537, 100000])
    runs = clilib.sweep(c, prop, which, sizes, tag)
    rej, states = vlib.validate("CryptoTrace", [evs for _, evs in runs], tag=tag + "cli", timeout=900)
    c.cov["cli_runs"] = len(runs)
    c.cov["traces_validated_against_impl"] = c.cov.get("traces_validated_against_impl", 0) + len(runs)
    for i, j, ev in rej:
        key, evs = runs[i]
        what = ("a modified protected file was accepted by `gmssl %s -decrypt`" % ev.get("f", "")[4:]) if ev.get("e") == "CliTamper" else \
               "`gmssl %s`: a %d-byte file did not come back from encrypt + decrypt, or the protected file differs from the reference construction (rc %s/%s, same=%s, refsame=%s, %d -> %d -> %d bytes)" % (
                   ev.get("f", "")[4:], ev.get("n", -1), ev.get("rc1"), ev.get("rc2"), ev.get("same"), ev.get("refsame"), ev.get("n", -1), ev.get("midlen", -1), ev.get("outlen", -1))
        c.violation(key + (":" + ev.get("what", "") if ev.get("e") == "CliTamper" else ""), what, {"events": evs})


def body():
    c = Check("C05", "fault_enumeration")
    c.add_model(vlib.tlc_model("Aead"), "Aead MaxLen=3 TagLen=2: every single tamper x every chunking; AcceptOnlyUntouched, UntouchedAccepted, HoldBackExact")
    c.add_model(vlib.tlc_model("Stream", "Stream_aead", coverage=False), "Stream Kind=aead hold-back machine, all chunkings")
    chunkings, r = CL.tlc_chunkings("aead")
    cs = gen(c, chunkings)
    log("[C05] %d cases" % len(cs))
    lines = [{k: v for k, v in x.items() if not k.startswith("_")} for x in cs]
    res = CL.run_script("modedrv", ["modedrv.c", "vh.c"], lines, tag="c05")
    execs = []
    for (case, evs, san), meta in zip(res, cs):
        key = "c05:%s:%s" % (meta["_base"], meta["_what"])
        c.count(1, key)
        if san:
            c.violation(key + ":crash", "driver died / sanitizer report: %s" % san, {"case": case})
            continue
        if any(e.get("unset") for e in evs) and not case.get("touched"):
            c.violation(key + ":outlen-unset", "a decrypt_update call returned 1 without reporting how many bytes it wrote (*outlen keeps the caller's old value)", {"case": case, "events": [{kk: vv for kk, vv in e.items() if kk != "T"} for e in evs][:12]})
        execs.append((key, case, CL.annotate(evs)))
    rej, states = vlib.validate("CryptoTrace", [e[2] for e in execs], tag="c05", timeout=1500, max_reject=400)
    c.cov["traces_validated_against_impl"] = len(execs)
    c.cov["trace_states"] = states
    for i, j, ev in rej:
        key, case, evs = execs[i]
        last = [e for e in evs if e["e"] in ("Finish", "Call")][-1]
        c.violation(key, "decryption returned %s for a %s tuple" % (last.get("rc"), "modified" if case.get("touched") else "genuine"),
                    {"case": case, "event_index": j, "events": [{kk: vv for kk, vv in e.items() if kk != "T"} for e in evs]})
    cli_part(c, "C05", ["sm4_gcm", "sm4_cbc_sm3_hmac", "sm4_ctr_sm3_hmac"], "c05")
    for key, case, evs in execs[:2]:
        c.sample({"key": key, "rc": [e.get("rc") for e in evs if e["e"] in ("Finish", "Call")]})
    c.cov["exhaustive"] = not c.quick
    return c.finish(
        rule="per scheme x API x message length x tag length: the genuine tuple, every single-bit flip of nonce and AAD, of the body (ciphertext and tag; quick: "
             "first 8 and last 48 bytes when longer than 56), truncations and one-byte extensions; distinct = distinct (scheme, length, modification); "
             "non-trivial = the modified tuple differs from the genuine one",
        trusted=["TLC", "reference encryption in ref/constructions.py (produces the genuine tuples)", "harness/modedrv.c"],
        assumptions=["keys, nonces and messages are seeded random representatives per class"])


if __name__ == "__main__":
    main(body)
