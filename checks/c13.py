#!/usr/bin/env python3
"""C13 - SM2 big-number and curve arithmetic equals integer mathematics.
TLC (Z256Judge.tla over BigNat / Sm2Curve) evaluates one exact relation per exported sm2_z256_* operation on the operands and the
result the library returned: integer add/sub/mul/compare/shift, Booth recoding, mod p and mod n arithmetic incl. Montgomery form
(congruences with quotient witnesses), point doubling/addition/negation/subtraction for equal, opposite, infinite and non-normalised
operands (chord/tangent relations with slope witnesses), and scalar multiplication by every route against the reference with
TLC-checked double-and-add chains for a sample.  Operands are boundary-biased (0, 1, 2, p-1, p, p+1, n-1, n, 2^256-1, limb
boundaries, random).  Both tiers also build and judge the ENABLE_SM2_AMD64 (assembly) variant."""
from common import *
import hashlib
import cryptolib as CL
import json
from sm2ref import *
from sm2ref import add as ec_add
import witness as W

R = 1 << 256


def H(v): return i2b(v % R)


def boundary(rng, mod=None):
    vals = [0, 1, 2, 3, p - 1, p, p + 1, n - 1, n, n + 1, R - 1, R - 2, 1 << 64, (1 << 64) - 1, 1 << 128, (1 << 128) - 1, 1 << 192, (1 << 192) - 1, (1 << 255), (1 << 255) - 1,
            p - 2, n - 2, (p + 1) // 2, (p - 1) // 2]
    vals += [rng.randrange(R) for _ in range(6)]
    if mod:
        vals = sorted({v % mod for v in vals} | {mod - 1, 0, 1})
    return vals


def cw(A, B, m):
    k, side = W.cong(A, B, m)
    return {"wk": k, "ws": side}


def gen(c):
    rng = c.rng
    lines, cases = [], []

    def put(line, case):
        line["id"] = len(lines) + 1
        lines.append({k: (CL.hx(v) if isinstance(v, (bytes, bytearray)) else v) for k, v in line.items()})
        case.setdefault("a", line.get("a", b"")); case.setdefault("b", line.get("b", b""))
        cases.append(case)
    allv = boundary(rng)
    pairs = [(x, y) for x in allv for y in allv]
    rng.shuffle(pairs)
    pairs = pairs[: (120 if c.quick else 900)] + [(0, 0), (R - 1, R - 1), (R - 1, 1), (p, p), (1, R - 1)] + [(x, (R - x) % R) for x in allv] + [(x, (R - 1 - x) % R) for x in allv[:12]]
    for x, y in pairs:
        for op in ("add", "sub", "mul", "cmp"):
            put({"op": op, "a": H(x), "b": H(y)}, {"op": op})
    for x in allv:
        for sh in (0, 1, 7, 31, 63):
            put({"op": "rshift", "a": H(x), "n": sh}, {"op": "rshift", "n": sh, "rem": W.limbs(x % (1 << sh))})
    # Booth recoding: all digits of a scalar for the window sizes the library uses
    for x in allv[:12] + [rng.randrange(R) for _ in range(4)]:
        for w in (5, 7):
            nd = 256 // w + 1
            for i in range(nd):
                put({"op": "booth", "a": H(x), "w": w, "i": i}, {"op": "boothdigit", "group": (x, w), "i": i})
    # mod p / mod n
    for mod, tag in ((p, "modp"), (n, "modn")):
        vs = boundary(rng, mod)
        prs = [(x, y) for x in vs for y in vs]
        rng.shuffle(prs)
        # never thinned: the pairs whose sum / difference sits exactly on the reduction boundary
        must = [(x, (mod - x) % mod) for x in vs] + [(mod - 1, 1), (1, mod - 1), (mod - 1, mod - 1), (0, 0), (0, mod - 1), (mod - 1, 0), (mod - 2, 1), (mod - 1, 2)]
        for x, y in must + prs[: (60 if c.quick else 500)]:
            put({"op": tag + "_add", "a": H(x), "b": H(y)}, {"op": tag + "_add"})
            put({"op": tag + "_sub", "a": H(x), "b": H(y)}, {"op": tag + "_sub"})
            if tag == "modn":
                put({"op": "modn_mul", "a": H(x), "b": H(y)}, {"op": "modn_mul", "_w": ("mul", x, y, None, n)})
            put({"op": tag + "_mont_mul", "a": H(x), "b": H(y)}, {"op": tag + "_mont_mul", "_w": ("mont_mul", x, y, None, mod)})
        # Montgomery products whose true value is tiny although both operands are large: the value before the final correction is s + m,
        # the slice in which a sloppy "is it >= m" test goes wrong
        for s_small in (0, 1, 2, 3, (1 << 64) - 1, 1 << 64, (1 << 96) - (1 << 64), (1 << 96) - (1 << 64) + 1, 1 << 96, (1 << 128) - 1, 1 << 192):
            for _ in range(1 if c.quick else 4):
                xx = rng.randrange(2, mod)
                a_m, b_m = xx * R % mod, pow(xx, -1, mod) * s_small % mod
                put({"op": tag + "_mont_mul", "a": H(a_m), "b": H(b_m)}, {"op": tag + "_mont_mul", "_w": ("mont_mul", a_m, b_m, None, mod)})
        put({"op": tag + "_mont_mul", "a": H((mod - 1) * R % mod), "b": H(mod - 1)}, {"op": tag + "_mont_mul", "_w": ("mont_mul", (mod - 1) * R % mod, mod - 1, None, mod)})
        put({"op": tag + "_mont_sqr", "a": H(mod - 1)}, {"op": tag + "_mont_sqr", "_w": ("mont_mul", mod - 1, mod - 1, None, mod)})
        for x in vs:
            put({"op": tag + "_neg", "a": H(x)}, {"op": tag + "_neg"})
            put({"op": tag + "_to_mont", "a": H(x)}, {"op": tag + "_to_mont", "_w": ("to_mont", x, None, None, mod)})
            put({"op": tag + "_from_mont", "a": H(x)}, {"op": tag + "_from_mont", "_w": ("from_mont", x, None, None, mod)})
            put({"op": tag + "_mont_sqr", "a": H(x)}, {"op": tag + "_mont_sqr", "_w": ("mont_mul", x, x, None, mod)})
            if x:
                put({"op": tag + "_mont_inv", "a": H(x)}, {"op": tag + "_mont_inv", "_w": ("mont_inv", x, None, None, mod)})
            if tag == "modp":
                put({"op": "modp_dbl", "a": H(x)}, {"op": "modp_dbl"})
                put({"op": "modp_tri", "a": H(x)}, {"op": "modp_tri"})
                put({"op": "modp_haf", "a": H(x)}, {"op": "modp_haf"})
                xr = x * pow(R, -1, p) % p          # the field element this Montgomery value stands for
                put({"op": "modp_mont_sqrt", "a": H(x)}, {"op": "modp_mont_sqrt", "_w": ("sqrt", x, None, None, p), "residue": xr == 0 or pow(xr, (p - 1) // 2, p) == 1})
            else:
                put({"op": "modn_sqr", "a": H(x)}, {"op": "modn_sqr", "_w": ("mul", x, x, None, n)})
                if x:
                    put({"op": "modn_inv", "a": H(x)}, {"op": "modn_inv", "_w": ("inv", x, None, None, n)})
            ee = rng.choice([0, 1, 2, 3, mod - 2, mod - 1, rng.randrange(mod)])
            if tag == "modp":
                exp = (pow(x * pow(R, -1, p), ee, p) * R) % p
                put({"op": "modp_mont_exp", "a": H(x), "e": H(ee)}, {"op": "modp_mont_exp", "expect": W.limbs(exp)})
            else:
                put({"op": "modn_exp", "a": H(x), "e": H(ee)}, {"op": "modn_exp", "expect": W.limbs(pow(x, ee, n))})
                put({"op": "modn_mont_exp", "a": H(x), "e": H(ee)}, {"op": "modn_mont_exp", "expect": W.limbs((pow(x * pow(R, -1, n), ee, n) * R) % n)})
        # exponent shapes: zero limbs below a non-zero one, single bits at limb edges, all-ones limbs, sparse / dense windows -- for every exponentiation route
        M64 = (1 << 64) - 1
        shapes = [1 << 64, (1 << 64) - 1, (1 << 64) + 1, 1 << 128, (1 << 128) + 5, 1 << 192, (1 << 192) + (1 << 64), (1 << 192) + 1, (1 << 255) % mod, (1 << 63), (1 << 127), (1 << 191),
                  M64 << 64, M64 << 128, (M64 << 192) % mod, (M64 << 128) | M64, 0x8000000000000000000000000000000000000000000000000000000000000001 % mod, 0x0f0f0f0f0f0f0f0f0f0f0f0f0f0f0f0f0f0f0f0f0f0f0f0f0f0f0f0f0f0f0f0f % mod,
                  0x1111111111111111111111111111111111111111111111111111111111111111 % mod, mod - 1, mod - 2, mod - 3, 0, 1, 2, 3, 4, 5, 15, 16, 17, 31, 32, 33]
        for z in range(4):           # a random exponent with limb z cleared, and with only limb z set
            e0 = rng.randrange(mod)
            shapes += [e0 & ~(M64 << (64 * z)), e0 & (M64 << (64 * z))]
        for ee in shapes:
            for x in ([2, rng.randrange(2, mod)] if c.quick else [2, 3, mod - 1, rng.randrange(2, mod), rng.randrange(2, mod)]):
                if tag == "modp":
                    put({"op": "modp_mont_exp", "a": H(x), "e": H(ee)}, {"op": "modp_mont_exp", "expect": W.limbs((pow(x * pow(R, -1, p), ee, p) * R) % p)})
                else:
                    put({"op": "modn_exp", "a": H(x), "e": H(ee)}, {"op": "modn_exp", "expect": W.limbs(pow(x, ee, n))})
                    put({"op": "modn_mont_exp", "a": H(x), "e": H(ee)}, {"op": "modn_mont_exp", "expect": W.limbs((pow(x * pow(R, -1, n), ee, n) * R) % n)})
    # points
    pts = [G, mul(2, G), mul(n - 1, G), mul(rng.randrange(1, n), G), mul(rng.randrange(1, n), G), lift_x(next(x for x in range(1, 60) if lift_x(x, 0)), 0), (0, sqrt_p(b))]

    def xy(Pt): return b"" if Pt is None else i2b(Pt[0]) + i2b(Pt[1])

    def ptcase(op, P1, P2, lam=None):
        Rr = add_pt(P1, P2)
        case = {"op": op, "x1": W.limbs(P1[0]) if P1 else [], "y1": W.limbs(P1[1]) if P1 else [], "inf1": P1 is None,
                "x2": W.limbs(P2[0]) if P2 else [], "y2": W.limbs(P2[1]) if P2 else [], "inf2": P2 is None}
        if P1 and P2 and Rr is not None:
            st, _ = W.add_step(P1, P2)
            case.update({k: st[k] for k in ("lam", "w1k", "w1s", "w2k", "w2s", "w3k", "w3s")})
        return case
    add_pt = ec_add
    pool = pts + [None]
    for P1 in pool:
        lam = H(rng.randrange(2, p)) if rng.random() < 0.6 else b""
        put({"op": "point_dbl", "P": xy(P1), "lam": lam}, ptcase("point_dbl", P1, P1))
        put({"op": "point_neg", "P": xy(P1), "lam": lam}, {"op": "point_neg", "x1": W.limbs(P1[0]) if P1 else [], "y1": W.limbs(P1[1]) if P1 else [], "inf1": P1 is None})
        for P2 in pool:
            lam = H(rng.randrange(2, p)) if rng.random() < 0.6 else b""
            put({"op": "point_add", "P": xy(P1), "Q": xy(P2), "lam": lam}, ptcase("point_add", P1, P2))
            put({"op": "point_sub", "P": xy(P1), "Q": xy(P2), "lam": lam}, ptcase("point_sub", P1, neg(P2)))
            if P2 is not None:
                put({"op": "point_add_affine", "P": xy(P1), "Q": xy(P2), "lam": lam}, ptcase("point_add_affine", P1, P2))
                put({"op": "point_sub_affine", "P": xy(P1), "Q": xy(P2), "lam": lam}, ptcase("point_sub_affine", P1, neg(P2)))
        if P1:
            put({"op": "is_on_curve", "P": xy(P1)}, {"op": "is_on_curve", "expectbool": True})
            put({"op": "is_on_curve", "P": i2b(P1[0]) + i2b((P1[1] + 1) % p)}, {"op": "is_on_curve", "expectbool": False})
            put({"op": "point_equ", "P": xy(P1), "Q": xy(P1), "lam": H(rng.randrange(2, p))}, {"op": "point_equ", "expectbool": True})
            put({"op": "point_equ", "P": xy(P1), "Q": xy(neg(P1)), "lam": H(rng.randrange(2, p))}, {"op": "point_equ", "expectbool": False})
    # the point at infinity in both representations the library uses -- set_infinity's (1:1:0) and the (0:0:0) its own additions and multiplications return --
    # as either operand of every point operation, and compared with finite points and with each other
    for P1 in pts[:3]:
        for zp, zq in ((1, 0), (0, 1)):
            a_, b_ = (None, P1) if zp else (P1, None)
            put({"op": "point_add", "P": xy(a_), "Q": xy(b_), "zinfP": zp, "zinfQ": zq, "lam": b""}, ptcase("point_add", a_, b_))
            put({"op": "point_sub", "P": xy(a_), "Q": xy(b_), "zinfP": zp, "zinfQ": zq, "lam": b""}, ptcase("point_sub", a_, neg(b_) if b_ else None))
            put({"op": "point_equ", "P": xy(a_), "Q": xy(b_), "zinfP": zp, "zinfQ": zq, "lam": b""}, {"op": "point_equ", "expectbool": False})
            put({"op": "point_equ", "P": xy(a_), "Q": xy(b_), "lam": b""}, {"op": "point_equ", "expectbool": False})
        put({"op": "point_add_affine", "P": b"", "Q": xy(P1), "zinfP": 1, "lam": b""}, ptcase("point_add_affine", None, P1))
    for zp, zq in ((1, 1), (1, 0), (0, 1), (0, 0)):
        put({"op": "point_equ", "P": b"", "Q": b"", "zinfP": zp, "zinfQ": zq, "lam": b""}, {"op": "point_equ", "expectbool": True})
        put({"op": "point_add", "P": b"", "Q": b"", "zinfP": zp, "zinfQ": zq, "lam": b""}, ptcase("point_add", None, None))
    put({"op": "point_dbl", "P": b"", "zinfP": 1, "lam": b""}, ptcase("point_dbl", None, None))
    put({"op": "point_neg", "P": b"", "zinfP": 1, "lam": b""}, {"op": "point_neg", "x1": [], "y1": [], "inf1": True})
    # distinct points that share a coordinate: the same x (P and -P, above) and the same y -- for y^2 = x^3 - 3x + b the other two roots x' of the cubic solve
    # x'^2 + x x' + x^2 - 3 = 0; a comparison of the wrong coordinate in a "same point?" shortcut shows on these
    inv2 = pow(2, -1, p)
    samey = []
    for k_ in list(range(2, 40)) + [rng.randrange(1, n) for _ in range(10)]:
        Pk = mul(k_, G)
        rt = sqrt_p((12 - 3 * Pk[0] * Pk[0]) % p)
        if rt is not None and rt != 0:
            for sgn in (1, -1):
                P2_ = ((-Pk[0] + sgn * rt) * inv2 % p, Pk[1])
                if on_curve(P2_):
                    samey.append((Pk, P2_))
        if len(samey) >= (4 if c.quick else 16):
            break
    for P1, P2 in samey:
        for lam in (b"", H(rng.randrange(2, p))):
            put({"op": "point_add", "P": xy(P1), "Q": xy(P2), "lam": lam}, ptcase("point_add", P1, P2))
            put({"op": "point_sub", "P": xy(P1), "Q": xy(P2), "lam": lam}, ptcase("point_sub", P1, neg(P2)))
            put({"op": "point_add_affine", "P": xy(P1), "Q": xy(P2), "lam": lam}, ptcase("point_add_affine", P1, P2))
            put({"op": "point_sub_affine", "P": xy(P1), "Q": xy(P2), "lam": lam}, ptcase("point_sub_affine", P1, neg(P2)))
        put({"op": "point_equ", "P": xy(P1), "Q": xy(P2), "lam": H(rng.randrange(2, p))}, {"op": "point_equ", "expectbool": False})
    # scalar multiplication by every route
    ks = [0, 1, 2, 3, n - 2, n - 1, n, n + 1, R - 1, 1 << 255, (1 << 128) - 1, 0xaaaaaaaaaaaaaaaaaaaaaaaaaaaaaaaaaaaaaaaaaaaaaaaaaaaaaaaaaaaaaaaa, 0x5555555555555555555555555555555555555555555555555555555555555555] + \
         [rng.randrange(R) for _ in range(6 if c.quick else 60)]
    # scalar shapes: every nibble value repeated (table index v everywhere), Booth-window edge digits (2^(w-1) and 2^(w-1) +- 1 in every 5- and 7-bit window),
    # zero limbs below / above non-zero ones, single bits at limb and window edges
    M64 = (1 << 64) - 1
    shapes = [int("%x" % v * 64, 16) for v in range(1, 16)]
    for w in (5, 7):
        for dgt in ((1 << (w - 1)) - 1, 1 << (w - 1), (1 << (w - 1)) + 1, (1 << w) - 1):
            shapes.append(sum(dgt << (w * i) for i in range(256 // w + 1)) % R)
    e0 = rng.randrange(R)
    shapes += [e0 & ~(M64 << (64 * z)) for z in range(4)] + [e0 & (M64 << (64 * z)) for z in range(4)] + [1 << b for b in (4, 5, 7, 63, 64, 127, 128, 191, 192, 252, 254)]
    ks += shapes if not c.quick else shapes[::2] + shapes[1:15:4]

    def exp_pt(Q): return {"einf": Q is None, "ex": W.limbs(Q[0]) if Q else [], "ey": W.limbs(Q[1]) if Q else []}
    nchain = 0
    for k in ks:
        Q = mul(k % n, G) if k % n else None
        put({"op": "mul_generator", "k": H(k)}, dict({"op": "mul_generator"}, **exp_pt(Q)))
        for Pt in pts[:3] + pts[3:4]:
            Q2 = mul(k % n, Pt) if k % n else None
            put({"op": "mul", "k": H(k), "P": xy(Pt), "lam": H(rng.randrange(2, p)) if rng.random() < 0.5 else b""}, dict({"op": "mul"}, **exp_pt(Q2)))
            put({"op": "mul_ex", "k": H(k), "P": xy(Pt)}, dict({"op": "mul_ex"}, **exp_pt(Q2)))
            s2 = rng.choice(ks)
            Q3 = add_pt(Q2, mul(s2 % n, G) if s2 % n else None)
            put({"op": "mul_sum", "t": H(k), "P": xy(Pt), "s": H(s2)}, dict({"op": "mul_sum"}, **exp_pt(Q3)))
        if 2 < k % n and nchain < (2 if c.quick else 12):
            st, Rr = W.chain(k % n, G)
            put({"op": "nop"}, {"op": "chain", "k": W.limbs(k % n), "bx": W.limbs(G[0]), "by": W.limbs(G[1]), "chain": st, "rx": W.limbs(Rr[0]), "ry": W.limbs(Rr[1])})
            nchain += 1
    return lines, cases


def witness_for(w, r):
    kind, x, y, _, m = w
    if kind == "mul": return cw(x * y, r, m)
    if kind == "mont_mul": return cw(r * R, x * y, m)
    if kind == "to_mont": return cw(x * R, r, m)
    if kind == "from_mont": return cw(r * R, x, m)
    if kind == "mont_inv": return cw(x * r, R * R, m)
    if kind == "inv": return cw(x * r, 1, m)
    if kind == "sqrt": return cw(r * r, x * R, m)


def short(v):
    v = str(v)
    return v if len(v) <= 20 else v.lstrip("0")[:6] + "~" + hashlib.sha1(v.encode()).hexdigest()[:10]


def run_variant(c, variant, lines, cases):
    res = CL.run_script("z256drv", ["z256drv.c", "vh.c"], lines, variant=variant, tag="c13" + variant, procs=8)
    jc, meta = [], []
    booth = {}
    for (line, evs, san), case in zip(res, cases):
        key = "c13:%s:%s:%s" % (variant, case["op"], ":".join(short(line.get(k, "")) for k in ("a", "b", "e", "k", "t", "s", "P", "Q", "zinfP", "zinfQ", "n", "w", "i") if line.get(k, "") not in ("", "-")))
        c.count(1, key)
        if san or not evs:
            if case["op"] == "chain":
                jc.append(dict(case, r=[], c=0)); meta.append((key, line, {}))
                continue
            c.violation(key[:160] + ":crash", "driver died / sanitizer report: %s" % san, {"line": line})
            continue
        ev = evs[0]
        if case["op"] == "boothdigit":
            booth.setdefault(case["group"], {})[case["i"]] = ev["c"]
            continue
        j = {k: v for k, v in case.items() if not k.startswith("_")}
        j["a"] = list(bytes.fromhex(line["a"])) if line.get("a", "-") != "-" else []
        j["b"] = list(bytes.fromhex(line["b"])) if line.get("b", "-") != "-" else []
        j.update(r=ev.get("r", []), c=ev["c"], inf=ev.get("inf", 0), x=ev.get("x", []), y=ev.get("y", []))
        if "_w" in case:
            rv = int.from_bytes(bytes(ev.get("r", [])), "big")
            try:
                j.update(witness_for(case["_w"], rv))
            except AssertionError:
                j.update({"wk": [], "ws": 0})           # no witness exists: the relation is false, TLC will say so
        jc.append(j)
        meta.append((key, line, ev))
    for (x, w), digs in booth.items():
        nd = max(digs) + 1
        jc.append({"op": "boothsum", "a": list(i2b(x % R)), "b": [], "r": [], "c": 0, "w": w, "digits": [digs[i] for i in range(nd)]})
        meta.append(("c13:%s:booth:w%d:%x" % (variant, w, x % (1 << 64)), {"a": hex(x), "w": w}, {"digits": [digs[i] for i in range(nd)]}))
    for j in jc:
        for f, dflt in (("rem", []), ("n", 0), ("w", 0), ("digits", []), ("wk", []), ("ws", 0), ("residue", False), ("expect", []), ("x1", []), ("y1", []), ("inf1", False), ("x2", []), ("y2", []), ("inf2", False),
                        ("lam", []), ("w1k", []), ("w1s", 0), ("w2k", []), ("w2s", 0), ("w3k", []), ("w3s", 0), ("einf", False), ("ex", []), ("ey", []), ("expectbool", False), ("inf", 0), ("x", []), ("y", []),
                        ("k", []), ("bx", []), ("by", []), ("chain", []), ("rx", []), ("ry", [])):
            j.setdefault(f, dflt)
    bad, states = vlib.judge("Z256Judge", jc, tag="c13" + variant, timeout=1500)
    c.cov["states"] += states
    c.cov["transitions"] += states
    c.cov["traces_validated_against_impl"] += len(jc)
    for i, info in bad:
        key, line, ev = meta[i]
        c.violation(key[:200], "result of %s differs from integer mathematics: %s" % (jc[i]["op"], json.dumps(ev)[:200]), {"line": line, "event": ev})
    return meta


def body():
    c = Check("C13", "exploration")
    lines, cases = gen(c)
    log("[C13] %d operation cases" % len(lines))
    meta = run_variant(c, "asan", lines, cases)
    if True:            # the ENABLE_SM2_AMD64 assembly back end gets the same cases in both tiers
        try:
            run_variant(c, "amd64", lines, cases)
        except RuntimeError as ex:
            c.note("variant amd64 not run: %s" % str(ex)[:300])
    for key, line, ev in meta[:2] + meta[-2:-1]:
        c.sample({"key": key, "line": line, "event": {k: (v if not isinstance(v, list) or len(v) < 40 else "<%d>" % len(v)) for k, v in ev.items()}})
    return c.finish(
        rule="boundary-biased operand tuples (0, 1, 2, p-1, p, p+1, n-1, n, 2^256-1, limb boundaries, random) for every exported operation; points: generator, small multiples, [n-1]G, random, "
             "x = 0 point, infinity, with normalised and non-normalised Jacobian representatives, all pairs incl. P=Q and P=-Q; scalars incl. 0, n, n+-1, 2^256-1; distinct = distinct (operation, operands)",
        trusted=["TLC BigNat evaluation", "witnesses (quotients, slopes) from Python integers: cannot make a wrong result pass", "reference [k]P for scalar multiplication, justified by TLC-checked chains for a sample"],
        assumptions=["exponentiation results are compared with the reference value (range checked by TLC)"])


if __name__ == "__main__":
    main(body)
