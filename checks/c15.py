#!/usr/bin/env python3
"""C15 - certificates, requests and CRLs parse as issued and verify only as issued.
TLC: X509Obj.tla (Issue / Tamper / Verify / Lookup over keys x signer IDs x serials: VerifiesOnlyAsIssued, RevokedExactlyWhenListed)
and X509Trace.tla, the judge of the recorded events.  Binding: objects are issued through the library over classes of field values
(serial length and sign-bit patterns, name attribute sets and string types, validity on either side of the UTCTime/GeneralizedTime
switch, every extension builder with both criticalities, 0..5 revoked entries), parsed back with the *_get_details family, verified
under the issuing key and ID, under another key, under another ID, and for single-bit modifications of the whole object; CRL lookups
for listed, unlisted, prefix and extension serials."""
from common import *
import cryptolib as CL
from derw import seq, tlv
import json

DAY = 86400
EXTS = ["bc_ca", "bc_ca0", "bc_ee", "ku_sign", "ku_ca", "ku_all", "eku", "ski", "aki", "pc", "crldp", "san9", "ian12", "iap", "aia", "cp", "pm", "nc", "fcrl"]
XOID = {"bc": 19, "ku": 15, "eku": 37, "ski": 14, "aki": 35, "pc": 36, "crldp": 31, "san": 17, "ian": 18, "iap": 54, "cp": 32, "pm": 33, "nc": 30, "fcrl": 46, "aia": None}


def expected_exts(tokens):
    """what the Extensions must parse back to, from the builder tokens alone: (OID content, critical, value or b'' when the harness does not restate it)"""
    oids, crit, vals = [], [], []
    for t in tokens:
        c = 1 if t.endswith("!") else 0
        t = t.rstrip("!?")
        name = next(k for k in sorted(XOID, key=len, reverse=True) if t.startswith(k))
        oids.append([0x55, 0x1d, XOID[name]] if XOID[name] is not None else [0x2b, 6, 1, 5, 5, 7, 1, 1]); crit.append(c)          # id-pe-authorityInfoAccess 1.3.6.1.5.5.7.1.1
        if name in ("san", "ian"):
            nlen = max(1, int(t[3:] or 1))
            vals.append(list(seq(tlv(0x82, b"a" * nlen))))
        else:
            vals.append([])
    return oids, crit, vals


_CA = {}


def ca_cert_for(name_content, b):
    """a self-signed CA certificate for x509drv's fixed key of pattern b (0x55 = the issuing key, 0x77 = another key) under the given Name (content octets), written by ref/derw.py"""
    import derw as W
    if (name_content, b) not in _CA:
        d = int.from_bytes(bytes([0x31]) + bytes([b]) * 31, "big"); P = W.mul(d, W.G)
        nm = W.seq(name_content)
        tbs = W.seq(W.explicit(0, W.dint(2)), W.dint(1), W.seq(W.oid(W.OID_SM2SIGN)), nm, W.seq(W.x509time(1700000000), W.x509time(2000000000)), nm, W.spki(P),
                    W.explicit(3, W.seq(W.ext_bc(True, None), W.ext_ku(["keyCertSign", "cRLSign"]))))
        r, s_ = W.sign(d, P, tbs, 0x1234567 + b)
        _CA[(name_content, b)] = W.seq(tbs, W.seq(W.oid(W.OID_SM2SIGN)), W.dbits(W.sigval(r, s_)))
    return _CA[(name_content, b)]


def gen(c):
    rng = c.rng
    rb = lambda k: bytes(rng.getrandbits(8) for _ in range(k))
    lines = []

    def add(**kw):
        kw["id"] = len(lines) + 1
        lines.append({k: (CL.hx(v) if isinstance(v, (bytes, bytearray)) else v) for k, v in kw.items()})
    serials = [b"\x01", b"\x7f", b"\x80", b"\xff", b"\x00\x80", bytes([0x12]) * 8, b"\x80" + rb(15), b"\x7f" + rb(19), b"\xff" * 20, rb(20), b"\x01" + bytes(19)]
    names = [("414c494345", 12), ("e4b8ade69687", 12), ("616c696365406578616d706c65", 12), ("416c696365", 19), ("41" * 60, 12), ("416c69636520426f62", 19)]   # admissible DirectoryString forms
    days = [(20000, 20300), (20000, 23650), (29219, 29221), (29000, 29400), (29300, 30000), (18000, 18100)]     # 29220 = 2050-01-01
    objs = []
    for kind in ("cert", "req", "crl"):
        count = 12 if c.quick else 60
        for i in range(count):
            nb, na = rng.choice(days)
            cn, tag = rng.choice(names)
            exts = []
            for e in rng.sample(EXTS, rng.randrange(0, 5)):
                if e.startswith("bc") and any(x.startswith("bc") for x in exts): continue
                if e.startswith("ku") and any(x.startswith("ku") for x in exts): continue
                exts.append(e + rng.choice(["!", "?"]) if e != "aki" else e)
            if kind == "crl":
                exts = [e for e in exts if e == "aki"]
            sid = [b"", b"1234567812345678", b"issuer-id-1", rb(30), b"ab\x00cd", b"\x00lead", b"trail\x00"][i % 7] if i < 14 else rng.choice([b"", b"1234567812345678", b"issuer-id-1", rb(30), b"ab\x00cd"])
            revoked = rng.sample(serials, rng.randrange(0, 6)) if kind == "crl" else []
            # per entry: reason code (-1 = no CRLReason extension, 0..10 without the unassigned 7) and invalidity date (-1 = absent)
            if kind == "crl" and i < 2:             # every reason code once, alone (i = 0) and next to an invalidity date (i = 1)
                revoked = list(serials)
            rinfo = [(rng.choice([-1, -1] + [0, 1, 2, 3, 4, 5, 6, 8, 9, 10]), rng.choice([-1, -1, nb - 30, 29300])) for _ in revoked]
            if kind == "crl" and i < 2:
                rinfo = [(r, -1 if i == 0 else nb - 30) for r in [0, 1, 2, 3, 4, 5, 6, 8, 9, 10, -1]]
            o = dict(kind=kind, serial=rng.choice(serials), nb=nb, nbs=rng.choice([0, 1, 86399]), na=na, nas=rng.choice([0, 86399]), cn=cn, cntag=tag, org=rng.choice(["-", "4f7267", "e585ace58fb8"]),
                     icn="526f6f74", icntag=12, iorg="-", exts=",".join(exts) or "-", sid=sid, revoked=",".join("%s:%d:%d" % (x.hex(), r, iv) for x, (r, iv) in zip(revoked, rinfo)) or "-", seed=100 + i)
            if kind == "crl" and i % 3 == 2:
                o["nonext"] = 1        # nextUpdate is OPTIONAL: a CRL issued without it parses back as "absent" (-1), with or without revoked entries / extensions after it
            if kind == "cert" and i % 4 == 3:
                o["self"] = 1          # a self-signed certificate (subject = issuer, certified key = issuing key): it is its own issuer certificate
            add(**o)
            objs.append((o, revoked, rinfo))
    # extension values whose size walks across the DER length-form switches (127/128, 255/256) -- issued, parsed back, verified; no tamper sweep for these
    sizes = (list(range(118, 133)) + list(range(246, 262))) if not c.quick else [121, 122, 123, 124, 125, 126, 127, 128, 249, 250, 251, 252, 253, 254, 255, 256]
    for i, nlen in enumerate(sizes):
        for tok in ("san%d" % nlen, "ian%d" % nlen):
            exts = ["ku_sign!", tok + ("!" if i % 2 else "?"), "bc_ee?"]
            o = dict(kind="cert", serial=serials[i % len(serials)], nb=20000, nbs=0, na=20300, nas=0, cn="414c494345", cntag=12, org="-", icn="526f6f74", icntag=12, iorg="-", exts=",".join(exts), sid=b"", revoked="-", seed=700 + i, light=1)
            add(**o)
            objs.append((o, [], []))
    # names whose encoded size walks across the 127/128 switch (subject of certificates and requests), serial numbers of every length 1..20 with and without a set top bit
    for i, olen in enumerate(range(24, 44) if not c.quick else range(28, 38)):
        for kind in ("cert", "req"):
            o = dict(kind=kind, serial=serials[i % len(serials)], nb=20000, nbs=0, na=20300, nas=0, cn="41" * 60, cntag=12, org="4f" * olen, icn="526f6f74", icntag=12, iorg="-", exts="ku_sign!", sid=b"", revoked="-", seed=800 + i, light=1)
            add(**o)
            objs.append((o, [], []))
    # a validity period of a single second (notBefore = notAfter; the period is inclusive on both ends) and of two
    for k, (nas_, what) in enumerate(((0, "equal"), (1, "one-second"))):
        o = dict(kind="cert", serial=serials[k], nb=20000, nbs=0, na=20000, nas=nas_, cn="414c494345", cntag=12, org="-", icn="526f6f74", icntag=12, iorg="-", exts="ku_sign!", sid=b"", revoked="-", seed=950 + k, light=1)
        add(**o)
        objs.append((o, [], []))
    for slen in range(1, 21):
        for top in (0x01, 0x7f, 0x80, 0xff):
            o = dict(kind="cert", serial=bytes([top]) + bytes([0x5a]) * (slen - 1), nb=20000, nbs=0, na=20300, nas=0, cn="414c494345", cntag=12, org="-", icn="526f6f74", icntag=12, iorg="-", exts="-", sid=b"", revoked="-", seed=900 + slen, light=1)
            add(**o)
            objs.append((o, [], []))
    return lines, objs, serials


def body():
    c = Check("C15", "model_checking")
    c.add_model(vlib.tlc_model("X509Obj"), "X509Obj: 2 keys x 2 signer IDs x 2 serials, tamper, verify, lookup: VerifiesOnlyAsIssued, RevokedExactlyWhenListed")
    lines, objs, serials = gen(c)
    res = CL.run_script("x509drv", ["x509drv.c", "vh.c"], lines, tag="c15a", procs=8)
    execs, follow, fmeta = [], [], []
    rng = c.rng
    for (line, evs, san), (o, revoked, rinfo) in zip(res, objs):
        key = "c15:%s:%d:serial=%s:exts=%s:nb=%s" % (o["kind"], line["id"], line["serial"][:10], o["exts"], o["nb"])
        c.count(1, key)
        if san or not evs:
            c.violation(key + ":crash", "driver died / sanitizer report: %s" % san, {"line": line})
            continue
        issue = evs[0]
        xo, xc, xv = expected_exts([t for t in o["exts"].split(",") if t != "-"]) if o["kind"] != "req" else ([], [], [])
        execs.append((key, [dict(e, xoids=xo, xcrit=xc, xvals=xv) if e["e"] == "Issue" else dict(e) for e in evs]))
        if issue.get("rc") != 1:
            continue
        der = bytes.fromhex(issue["der"])
        sid = o["sid"] if o["sid"] else b"1234567812345678"
        sidh = CL.hx(sid)

        def v(what, d, keyname, sidv, keyright, sidright, tampered):
            follow.append({"kind": "verify", "obj": o["kind"], "der": CL.hx(d), "key": keyname, "sid": CL.hx(sidv), "id": len(follow) + 1})
            fmeta.append((key + ":" + what, {"keyright": keyright, "sidright": sidright, "tampered": tampered}))
        v("right", der, "right", sid, True, True, False)
        v("otherkey", der, "other", sid, False, True, False)
        v("otherid", der, "right", sid + b"x", True, False, False)
        v("otherid2", der, "right", b"1234567812345678" if sid != b"1234567812345678" else b"1234567812345679", True, False, False)
        # IDs are byte strings, not C strings: the issuing ID continued after a zero octet, or cut at its first zero octet, is another ID
        v("otherid:zero-suffix", der, "right", sid + b"\x00tail", True, False, False)
        if b"\x00" in sid and sid.index(b"\x00") > 0:
            v("otherid:cut-at-zero", der, "right", sid[:sid.index(b"\x00")], True, False, False)
        # an algorithm identifier replaced by another one the library knows (same encoded length): the outer one is not under the signature, the inner one is
        SM2SIGN, ECDSA256 = bytes.fromhex("2a811ccf55018375"), bytes.fromhex("2a8648ce3d040302")
        occ = [i for i in range(len(der) - 8) if der[i:i + 8] == SM2SIGN]
        if o["kind"] != "req" and len(occ) >= 2:
            for nm, i in (("inner", occ[0]), ("outer", occ[-1])):
                v("algswap:%s" % nm, der[:i] + ECDSA256 + der[i + 8:], "right", sid, True, True, True)
        # the issuer given as a CERTIFICATE (x509_cert_verify_by_ca_cert, x509_crl_verify_by_ca_cert, x509_signed_verify_by_ca_cert): an issuer certificate written by
        # the reference encoder for the issuing key (or for another key under the same name); a self-signed certificate also against itself -- where the
        # modified copy is BOTH arguments, so nothing but the signature check stands between it and acceptance
        if o["kind"] in ("cert", "crl"):
            iname = bytes(issue["issuer"])
            via = []

            def vv(what, d, how, ca, sidv, keyright, sidright, tampered):
                follow.append({"kind": "verify", "obj": o["kind"], "der": CL.hx(d), "via": how, "ca": CL.hx(ca) if ca else "-", "key": "right", "sid": CL.hx(sidv), "id": len(follow) + 1})
                fmeta.append((key + ":" + what, {"keyright": keyright, "sidright": sidright, "tampered": tampered}))
            ca_r, ca_o = ca_cert_for(iname, 0x55), ca_cert_for(iname, 0x77)
            nb_ = len(der) * 8
            vbits = sorted(set([rng.randrange(nb_) for _ in range(10)] + [nb_ - 1 - 8 * k for k in (0, 20, 40, 60)] + [8 * 12 + 3, 8 * 30 + 1]))
            for how in ("cacert", "signedca"):
                vv("via-%s:right" % how, der, how, ca_r, sid, True, True, False)
                vv("via-%s:otherkey" % how, der, how, ca_o, sid, False, True, False)
                vv("via-%s:otherid" % how, der, how, ca_r, sid + b"x", True, False, False)
                for bit in vbits:
                    x = bytearray(der); x[bit // 8] ^= 1 << (bit % 8)
                    vv("via-%s:flip:bit%d" % (how, bit), bytes(x), how, ca_r, sid, True, True, True)
            if o["kind"] == "cert":
                vv("via-cacert:othername", der, "cacert", ca_cert_for(iname[:-1] + bytes([iname[-1] ^ 1]), 0x55), sid, True, True, True)     # right key under another name
            if o.get("self"):
                vv("via-self:right", der, "self", None, sid, True, True, False)
                vv("via-self:otherid", der, "self", None, sid + b"x", True, False, False)
                for bit in vbits + list(range(nb_ - 64 * 8, nb_, 37)):
                    x = bytearray(der); x[bit // 8] ^= 1 << (bit % 8)
                    vv("via-self:flip:bit%d" % bit, bytes(x), "self", None, sid, True, True, True)
        if o.get("light"):
            continue
        nbits = len(der) * 8
        bits = range(nbits) if (not c.quick and line["id"] % 10 == 1) else sorted(set([rng.randrange(nbits) for _ in range(40 if c.quick else 200)] + list(range(nbits - 80 * 8, nbits, 7)) + list(range(0, 64))))
        for bit in bits:
            x = bytearray(der); x[bit // 8] ^= 1 << (bit % 8)
            v("flip:bit%d" % bit, bytes(x), "right", sid, True, True, True)
        if o["kind"] == "crl":
            listed = set(revoked)
            # queries are serial-number values in the form the parser returns them (magnitude without leading zero octets): listed ones, unlisted ones,
            # extensions and prefixes of listed ones
            qs = [(s.lstrip(b"\x00") or b"\x00") for s in serials] + [(s.lstrip(b"\x00") or b"\x00") + b"\x00" for s in revoked[:2]] + [(s.lstrip(b"\x00") or b"\x00")[:-1] for s in revoked[:2] if len(s.lstrip(b"\x00")) > 1]
            for q in qs:
                if not q:
                    continue
                # a serial is the INTEGER value: leading zero octets do not change it
                qv = q.lstrip(b"\x00") or b"\x00"
                is_listed = any((s.lstrip(b"\x00") or b"\x00") == qv for s in listed)
                follow.append({"kind": "lookup", "der": CL.hx(der), "serial": CL.hx(q), "id": len(follow) + 1})
                er, ei = next(((r, iv) for s, (r, iv) in zip(revoked, rinfo) if (s.lstrip(b"\x00") or b"\x00") == qv), (-1, -1))
                fmeta.append((key + ":lookup:" + q.hex(), {"listed": is_listed, "erd": o["nb"] * DAY + o["nbs"] - 3600, "ereason": er, "einv": ei}))
    res2 = CL.run_script("x509drv", ["x509drv.c", "vh.c"], follow, tag="c15b", procs=12)
    for (line, evs, san), (key, facts) in zip(res2, fmeta):
        c.count(1, key)
        if san or not evs:
            c.violation(key + ":crash", "driver died / sanitizer report on a modified object: %s" % san, {"line": {k: str(v)[:300] for k, v in line.items()}})
            continue
        execs.append((key, [dict(evs[0], **facts)]))
    rej, states = vlib.validate("X509Trace", [e[1] for e in execs], tag="c15", timeout=1200)
    c.cov["traces_validated_against_impl"] = len(execs)
    c.cov["trace_states"] = states
    for i, j, ev in rej:
        key, evs = execs[i]
        c.violation(key, "event %s is not allowed by the X.509 object contract: %s" % (ev.get("e"), json.dumps({k: (v if not isinstance(v, (list, str)) or len(v) < 60 else "<%d>" % len(v)) for k, v in ev.items()})[:300]),
                    {"events": [{k: (v if not isinstance(v, (list, str)) or len(v) < 200 else str(v)[:200]) for k, v in e.items()} for e in evs]})
    for key, evs in execs[:1]:
        c.sample({"key": key, "events": [json.dumps({k: (v if not isinstance(v, (list, str)) or len(v) < 40 else "<%d>" % len(v)) for k, v in e.items()})[:260] for e in evs]})
    return c.finish(
        rule="objects: 3 kinds x seeded field-class combinations (11 serial patterns, 5 name forms incl. UTF-8 and IA5/Printable tags, 6 validity windows around 2050, 11 extension builders x criticality, 0..5 revoked entries, 4 signer IDs); "
             "per object: verify right / other key / two other IDs, bit flips (quick: 40 random + the signature region + the first 64 bits; thorough: all bits for every 10th object), CRL lookups; distinct = distinct case keys",
        trusted=["TLC (X509Trace.tla judge)", "harness/x509drv.c (records the supplied fields next to the parsed ones)"],
        assumptions=["field values are seeded representatives of their classes"])


if __name__ == "__main__":
    main(body)
