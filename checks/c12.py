#!/usr/bin/env python3
"""C12 - imported keys and points are validated on every path.
TLC (ImportJudge.tla over BigNat / Sm2Curve) decides for every (import path, value class) whether the interface must succeed:
coordinates below p and on the curve (checked with residue witnesses), never infinity, scalars in [1, n-2], private-key containers
only with the matching public key, and compress/decompress identity.  The cases are the product path x value class enumerated
below; each is concretised into the real container (raw, octets, SPKI DER/PEM, certificate, TLS ServerKeyExchange /
ClientKeyExchange / key_share, ECDH peer, ECPrivateKey, PKCS#8, SM2 ciphertext C1, SM9 G1/G2 octets) and run through the library."""
from common import *
import cryptolib as CL
import json
from derw import *
import sm9ref

LIMB = 4096


def limbs(v):
    out = []
    while v:
        out.append(v % LIMB)
        v //= LIMB
    return out


def residue_witness(x, y, prime=None, rhs=None):
    prime = prime or p
    L = y * y
    R = rhs if rhs is not None else x * x * x + a * x + b
    r = (L - R) % prime
    if L >= R + r:
        return {"wk": limbs((L - R - r) // prime), "wside": 0, "wr": limbs(r)}
    return {"wk": limbs((R + r - L) // prime), "wside": 1, "wr": limbs(r)}


def value_classes(rng):
    """(name, x, y) with x, y integers in [0, 2^256)"""
    out = []
    for i in range(3):
        k = rng.randrange(1, n)
        P = mul(k, G)
        out.append(("valid%d" % i, P[0], P[1]))
        out.append(("negy%d" % i, P[0], p - P[1]))
        out.append(("wrongy%d" % i, P[0], (P[1] + 1) % p))
        out.append(("swapped%d" % i, P[1], P[0]))
    # small x with x + p < 2^256: a coordinate >= p that is congruent to a valid one
    x = 1
    found = 0
    while found < 2:
        Q = lift_x(x, 0)
        if Q:
            out.append(("x_plus_p_%d" % x, x + p, Q[1]))
            out.append(("smallx_%d" % x, x, Q[1]))
            found += 1
        x += 1
    x = 2
    while lift_x(x, 0) is not None:
        x += 1
    out.append(("x_nonresidue", x, 5))
    P = mul(12345, G)
    out += [("zero_zero", 0, 0), ("x_is_p", p, P[1]), ("y_is_p", P[0], p), ("y_max", P[0], 2 ** 256 - 1), ("x_max", 2 ** 256 - 1, P[1]),
            ("p_minus_1", p - 1, p - 1), ("x_zero_valid", 0, sqrt_p(b)), ("x_zero_wrong", 0, 1), ("one_one", 1, 1),
            ("x_is_p_congruent", p, sqrt_p(b)), ("x_is_p_congruent_neg", p, p - sqrt_p(b))]
    return out


def ske_record(oct65):
    body = bytes([3, 0, 41, 65]) + oct65 + bytes([7, 8, 0, 70]) + bytes(70)
    hs = bytes([12]) + len(body).to_bytes(3, "big") + body
    return bytes([22, 3, 3]) + len(hs).to_bytes(2, "big") + hs


def cke_record(oct65):
    body = bytes([65]) + oct65
    hs = bytes([16]) + len(body).to_bytes(3, "big") + body
    return bytes([22, 3, 3]) + len(hs).to_bytes(2, "big") + hs


def ecprivkey(d, P):
    return seq(dint(1), doctets(i2b(d)), explicit(0, oid(OID_SM2)), explicit(1, dbits(point_octets(P))))


def pkcs8(d, P):
    return seq(dint(0), seq(oid(OID_EC), oid(OID_SM2)), doctets(ecprivkey(d, P)))


def gen(c):
    rng = c.rng
    cases, lines = [], []

    def add(path, data, judge, aux=b""):
        lines.append({"id": len(lines) + 1, "path": path, "data": CL.hx(data), "aux": CL.hx(aux)})
        cases.append(dict(judge, path=path))
    vals = value_classes(rng)
    rootd, rootP = (0x1234567 * 977) % n, None
    rootP = mul(rootd, G)
    for name, x, y in vals:
        xb, yb = i2b(x), i2b(y)
        j = dict(kind="point", cls=name, x=list(xb), y=list(yb), hascoords=True, wellformed=True, checkxy=True, **residue_witness(x, y))
        o65 = b"\x04" + xb + yb
        add("raw64", xb + yb, j)
        add("set_public_key", xb + yb, j)
        add("octets", o65, j)
        for pre in ([0, 1, 5, 6, 7, 8, 255] if c.quick else [v for v in range(256) if v not in (2, 3, 4)]):      # every other prefix byte with 65 bytes
            add("octets", bytes([pre]) + xb + yb, dict(j, wellformed=False, cls=name + ":prefix%d" % pre))
        add("octets", o65[:64], dict(j, wellformed=False, cls=name + ":len64"))
        add("octets", o65 + b"\0", dict(j, wellformed=False, cls=name + ":len66"))
        add("spki_der", spki((x, y)), j)
        add("spki_pem", pem("PUBLIC KEY", spki((x, y))).encode(), j)
        add("cert", cert(7, "VRoot", "Subj", (x, y), 1790000000 - 86400, 1790000000 + 86400, [], rootd, rootP, 0x5555), j)
        add("ske", ske_record(o65), j)
        add("cke", cke_record(o65), j)
        add("ks13_server", bytes([0, 41, 0, 65]) + o65, j)
        add("ecdh_peer", o65, dict(j, checkxy=False))
        # compressed forms: prefix 02 / 03 with x; expected point is (x, the root with that parity) when x < p and a root exists
        for pre in (2, 3):
            Q = lift_x(x, pre - 2) if x < p else None
            if Q:
                add("octets", bytes([pre]) + xb, dict(kind="point", cls=name + ":compressed%d" % pre, x=list(xb), y=list(i2b(Q[1])), hascoords=True, wellformed=True, checkxy=True, **residue_witness(x, Q[1])))
            else:
                add("octets", bytes([pre]) + xb, dict(kind="point", cls=name + ":compressed%d" % pre, x=list(xb), y=list(yb), hascoords=False, wellformed=True, checkxy=False, **residue_witness(x, y)))
        if on_curve((x, y)):
            add("compress_roundtrip", xb + yb, j)
    # encodings of the point at infinity
    zero = dict(kind="point", cls="infinity", x=[0] * 32, y=[0] * 32, hascoords=False, wellformed=True, checkxy=False, **residue_witness(0, 0))
    add("octets", b"\x00", zero)
    add("octets", b"\x04" + bytes(64), dict(zero, hascoords=True))
    add("ecdh_peer", b"\x00", zero)
    add("ecdh_peer", b"\x04" + bytes(64), dict(zero, hascoords=True))
    add("ks13_server", bytes([0, 41, 0, 65]) + b"\x04" + bytes(64), dict(zero, hascoords=True))
    add("cke", cke_record(b"\x04" + bytes(64)), dict(zero, hascoords=True))
    # private scalars
    for name, d in [("zero", 0), ("one", 1), ("two", 2), ("n-3", n - 3), ("n-2", n - 2), ("n-1", n - 1), ("n", n), ("n+1", n + 1), ("max", 2 ** 256 - 1), ("mid", n // 3)]:
        add("scalar", i2b(d), dict(kind="scalar", cls=name, d=list(i2b(d))))
        if 1 <= d <= n - 2 or d in (n - 1,):
            P = mul(d % n, G) if d % n else None
            if P:
                good = dict(kind="privkey", cls=name, d=list(i2b(d)), wellformed=True, pubmatches=True)
                add("ecprivkey_der", ecprivkey(d, P), good)
                add("pkcs8_der", pkcs8(d, P), good)
                other = mul((d + 5) % n or 7, G)
                add("ecprivkey_der", ecprivkey(d, other), dict(good, pubmatches=False, cls=name + ":otherpub"))
                add("pkcs8_der", pkcs8(d, other), dict(good, pubmatches=False, cls=name + ":otherpub"))
                add("ecprivkey_der", ecprivkey(d, (P[0], p - P[1])), dict(good, pubmatches=False, cls=name + ":negpub"))
    # SM2 ciphertext C1 (genuine vs C1 replaced by an invalid / different point)
    dfix = int.from_bytes(bytes([0x12]) + bytes([0x5a]) * 31, "big")
    Pfix = mul(dfix, G)
    k = rng.randrange(1, n)
    C1, C2, C3 = encrypt(Pfix, b"attack at dawn", k)
    def ct(pt): return seq(dint(pt[0]), dint(pt[1]), doctets(C3), doctets(C2))
    add("c1", ct(C1), dict(kind="oracle", cls="genuine", expect=True))
    for name, x, y in vals:
        if (x, y) != C1:
            add("c1", ct((x, y)), dict(kind="oracle", cls="c1:" + name, expect=False))
    z32 = bytes(32); mm = b"forged without any key"
    add("c1", seq(dint(0), dint(0), doctets(sm3(z32 + mm + z32)), doctets(bytes(u ^ v for u, v in zip(mm, kdf(z32 + z32, len(mm)))))), dict(kind="oracle", cls="c1:zero_zero_consistent", expect=False))
    # SM9 points
    q = sm9ref.p
    for i in range(3):
        Q = sm9ref.g1_mul(rng.randrange(1, sm9ref.N), sm9ref.P1)
        for nm, (x, y) in (("valid", Q), ("wrongy", (Q[0], (Q[1] + 1) % q)), ("x_is_p", (q, Q[1])), ("zero_zero", (0, 0)), ("negy", (Q[0], q - Q[1]))):
            w = residue_witness(x, y, q, x * x * x + 5)
            add("sm9_g1", b"\x04" + i2b(x) + i2b(y), dict(kind="sm9g1", cls=nm, x=list(i2b(x)), y=list(i2b(y)), hascoords=True, wellformed=True, checkxy=True, **w))
        T = sm9ref.g2_mul(rng.randrange(1, sm9ref.N), sm9ref.P2)
        tb = sm9ref.g2_to_bytes(T)
        add("sm9_g2", tb, dict(kind="oracle", cls="g2valid", expect=True))
        bad = bytearray(tb); bad[100] ^= 1
        add("sm9_g2", bytes(bad), dict(kind="oracle", cls="g2wrong", expect=sm9ref.g2_on_curve(sm9ref.g2_from_bytes(bytes(bad))) if False else False))
    # SM9: every coordinate component written as value + p (where that still fits 32 bytes) must be refused -- octets and the master public key containers
    need = {("g2", off): None for off in (1, 33, 65, 97)}
    need.update({("g1", off): None for off in (1, 33)})
    for _ in range(400):
        if all(v is not None for v in need.values()):
            break
        T = sm9ref.g2_to_bytes(sm9ref.g2_mul(rng.randrange(1, sm9ref.N), sm9ref.P2))
        Q = sm9ref.g1_mul(rng.randrange(1, sm9ref.N), sm9ref.P1)
        Qb = b"\x04" + i2b(Q[0]) + i2b(Q[1])
        for (grp, off), v in list(need.items()):
            src = T if grp == "g2" else Qb
            val = int.from_bytes(src[off:off + 32], "big")
            if v is None and val + q < (1 << 256):
                need[(grp, off)] = (src, src[:off] + i2b(val + q) + src[off + 32:])
    for (grp, off), v in sorted(need.items()):
        if v is None:
            continue
        good, alias = v
        for path, wrap in ((("sm9_g2", lambda b: b), ("sm9_sign_mpk_der", lambda b: seq(dbits(b)))) if grp == "g2" else (("sm9_g1", lambda b: b), ("sm9_enc_mpk_der", lambda b: seq(dbits(b))))):
            add(path, wrap(good), dict(kind="oracle", cls="%s:canonical@%d" % (path, off), expect=True))
            add(path, wrap(alias), dict(kind="oracle", cls="%s:component+p@%d" % (path, off), expect=False))
    return cases, lines


def body():
    c = Check("C12", "model_checking")
    cases, lines = gen(c)
    log("[C12] %d import cases" % len(cases))
    res = CL.run_script("importdrv", ["importdrv.c", "vh.c"], lines, tag="c12")
    jc, meta = [], []
    for (case, evs, san), j in zip(res, cases):
        key = "c12:%s:%s" % (j["path"], j["cls"])
        c.count(1, key)
        if san or not evs:
            c.violation(key + ":crash", "driver died / sanitizer report: %s" % san, {"case": {k: v for k, v in case.items() if k != "data"}, "data": case["data"][:400]})
            continue
        ev = evs[0]
        jj = {k: v for k, v in j.items() if k not in ("path", "cls")}
        for f, d in (("x", []), ("y", []), ("d", []), ("wk", []), ("wr", []), ("wside", 0), ("hascoords", False), ("wellformed", True), ("checkxy", False), ("pubmatches", True), ("expect", True)):
            jj.setdefault(f, d)
        jj.update(rc=ev["rc"], inf=ev.get("inf", 0), libx=ev.get("x", []), liby=ev.get("y", []))
        jc.append(jj)
        meta.append((key, case, ev))
    bad, states = vlib.judge("ImportJudge", jc, tag="c12", timeout=900)
    c.cov["states"] = states
    c.cov["transitions"] = states
    c.cov["traces_validated_against_impl"] = len(jc)
    for i, info in bad:
        key, case, ev = meta[i]
        c.violation(key, "import verdict differs from the specification: library rc=%s inf=%s, specification says accept=%s" % (ev["rc"], ev.get("inf"), info[0] if info else "?"),
                    {"script": {k: (v if len(str(v)) < 300 else str(v)[:300]) for k, v in case.items()}, "library": ev})
    for (key, case, ev) in meta[:2]:
        c.sample({"key": key, "library": ev})
    c.cov["exhaustive"] = True
    return c.finish(
        rule="product of import paths (raw64, set_public_key, octets with every prefix class and length, SPKI DER/PEM, certificate, TLS SKE/CKE/key_share, ECDH peer, compressed forms, "
             "ECPrivateKey, PKCS#8, SM2 C1, SM9 G1/G2) and value classes (valid, -y, wrong y, swapped, x+p, small x, non-residue x, (0,0), p, 2^256-1, p-1, x=0, infinity encodings; scalars 0,1,2,n-3..n+1,max); "
             "distinct = distinct (path, class); TLC evaluates curve membership and ranges in BigNat",
        trusted=["TLC", "residue witnesses and container encodings from ref/ (a wrong witness cannot turn a wrong verdict into a right one)", "reference [d]G for the private-key container cases", "ref/sm9ref.py for SM9 twist points"],
        assumptions=["SM9 G2 membership and 'genuine ciphertext' are oracle columns from the reference"])


if __name__ == "__main__":
    main(body)
