#!/usr/bin/env python3
"""C11 - record protection round-trips and rejects altered, replayed or misplaced records.
TLC: Tls.tla (sequence numbers, adversary on protected records: AppOnlyFromPeer), Aead.tla.
Binding (API): tls_cbc_encrypt/decrypt and tls13_gcm_encrypt/decrypt -- protect/unprotect identity for every payload length class
(thorough: every length 0..16384), exact protected bytes recomputed by TLC from the record layouts in Modes.tla (IV taken from the
interposed entropy source), unprotection of reference-made records, and refusal of every single-bit flip of body and authenticated
header fields, truncation, extension, other sequence numbers and all-padding plaintexts.
Binding (live): duplicate / swap / drop / flip of application-data records on real connections, validated against TlsTrace.tla."""
from common import *
import cryptolib as CL
import constructions as K
import tlslib, json

HDR_TLCP, HDR_TLS12 = bytes([23, 1, 1]), bytes([23, 3, 3])


def gen(c):
    rng = c.rng
    rb = lambda n: bytes(rng.getrandbits(8) for _ in range(n))
    T = K.Tab()
    out = []

    def add(what, **kw):
        kw["id"] = len(out) + 1
        kw["_key"] = what
        out.append({k: (CL.hx(v) if isinstance(v, (bytes, bytearray)) else v) for k, v in kw.items()})
    seqs = [bytes(8), b"\xff" * 8, rb(8), (1).to_bytes(8, "big")]
    # ---- identity for every payload length (through the library both ways) ----
    lens = range(0, 16385) if not c.quick else sorted(set(list(range(0, 70)) + list(range(0, 16385, 97)) + [16383, 16384, 255, 256, 257, 4095, 4096, 4097]))
    for n in lens:
        k, mk, iv = rb(16), rb(32), rb(12)
        add("rt:cbc:len%d" % n, f="tls_cbc_rt", api="oneshot", key=k, mackey=mk, seq=rng.choice(seqs), hdr3=rng.choice([HDR_TLCP, HDR_TLS12]), msg=rb(n))
        add("rt:tls13:len%d" % n, f="tls13_rt", api="oneshot", key=k, iv=iv, seq=rng.choice(seqs), type=rng.choice([21, 22, 23]), padlen=rng.choice([0, 0, 1, 17, 255]), msg=rb(n))
    # ---- exact bytes: the library's protected record equals the layout definition (TLC recomputes it) ----
    exact = [0, 1, 15, 16, 17, 31, 32, 47, 48, 100, 255, 256] + ([1000, 4096, 16384] if not c.quick else [1000])
    for n in exact:
        k, mk, iv = rb(16), rb(32), rb(12)
        add("exact:cbc_enc:len%d" % n, f="tls_cbc_enc", api="oneshot", key=k, mackey=mk, seq=rng.choice(seqs), hdr3=HDR_TLS12, msg=rb(n))
        add("exact:tls13_enc:len%d" % n, f="tls13_enc", api="oneshot", key=k, iv=iv, seq=rng.choice(seqs), type=23, padlen=rng.choice([0, 3, 255]), msg=rb(n))
    # ---- unprotecting records made by the reference + the modification neighbourhood ----
    flipl = [0, 1, 16, 47] if c.quick else [0, 1, 15, 16, 17, 100, 1000]
    for n in flipl:
        k, mk, iv, iv16, seq = rb(16), rb(32), rb(12), rb(16), rng.choice(seqs)
        payload = rb(n)
        # CBC + HMAC
        body = K.tls_cbc_body(T, mk, k, seq, HDR_TLS12, iv16, payload)
        base = dict(f="tls_cbc_dec", api="oneshot", key=k, mackey=mk)
        add("open:cbc:len%d" % n, seq=seq, hdr3=HDR_TLS12, msg=body, touched=0, **base)
        nb = len(body) * 8
        bits = range(nb) if not c.quick or nb <= 8 * 96 else list(range(0, 8 * 20)) + list(range(nb - 8 * 70, nb))
        for i in bits:
            x = bytearray(body); x[i // 8] ^= 1 << (i % 8)
            add("flip:cbc:len%d:body:bit%d" % (n, i), seq=seq, hdr3=HDR_TLS12, msg=bytes(x), touched=1, **base)
        for i in range(24):      # type and version fields of the header are authenticated
            h = bytearray(HDR_TLS12); h[i // 8] ^= 1 << (i % 8)
            add("flip:cbc:len%d:hdr:bit%d" % (n, i), seq=seq, hdr3=bytes(h), msg=body, touched=1, **base)
        for cut in (1, 15, 16, 17, 32, len(body) - 16, len(body)):
            if 0 < cut <= len(body):
                add("trunc:cbc:len%d:%d" % (n, cut), seq=seq, hdr3=HDR_TLS12, msg=body[:len(body) - cut], touched=1, **base)
        for ext in (1, 16):
            add("extend:cbc:len%d:%d" % (n, ext), seq=seq, hdr3=HDR_TLS12, msg=body + rb(ext), touched=1, **base)
        # the same through tls_record_decrypt, which is handed the record and its size: genuine; extended with the header's length field left as it was (1, 15, 16,
        # 32 octets) and with the field raised to match; cut with the field left as it was
        add("open:cbc-record:len%d" % n, seq=seq, hdr3=HDR_TLS12, msg=body, hlen=len(body), touched=0, **base)
        for ext in (1, 15, 16, 32):
            add("extend:cbc-record:len%d:%d:hdr-unchanged" % (n, ext), seq=seq, hdr3=HDR_TLS12, msg=body + rb(ext), hlen=len(body), touched=1, **base)
            add("extend:cbc-record:len%d:%d:hdr-raised" % (n, ext), seq=seq, hdr3=HDR_TLS12, msg=body + rb(ext), hlen=len(body) + ext, touched=1, **base)
        add("trunc:cbc-record:len%d:16:hdr-unchanged" % n, seq=seq, hdr3=HDR_TLS12, msg=body[:len(body) - 16], hlen=len(body), touched=1, **base)
        for d in (1, 2, 255, 256, 1 << 32, (1 << 64) - 1):
            s2 = ((int.from_bytes(seq, "big") + d) % (1 << 64)).to_bytes(8, "big")
            add("seq:cbc:len%d:+%d" % (n, d), seq=s2, hdr3=HDR_TLS12, msg=body, touched=1, **base)
        # TLS 1.3
        pad = rng.choice([0, 1, 40])
        b13 = K.tls13_body(T, k, iv, seq, 23, payload, pad)
        base13 = dict(f="tls13_dec", api="oneshot", key=k, iv=iv)
        add("open:tls13:len%d" % n, seq=seq, msg=b13, touched=0, **base13)
        nb = len(b13) * 8
        bits = range(nb) if not c.quick or nb <= 8 * 96 else list(range(0, 8 * 20)) + list(range(nb - 8 * 40, nb))
        for i in bits:
            x = bytearray(b13); x[i // 8] ^= 1 << (i % 8)
            add("flip:tls13:len%d:body:bit%d" % (n, i), seq=seq, msg=bytes(x), touched=1, **base13)
        for cut in (1, 15, 16, 17, len(b13)):
            if 0 < cut <= len(b13):      # a changed length field shows up as a truncated / extended body (length is the AAD)
                add("trunc:tls13:len%d:%d" % (n, cut), seq=seq, msg=b13[:len(b13) - cut], touched=1, **base13)
        add("extend:tls13:len%d:1" % n, seq=seq, msg=b13 + b"\0", touched=1, **base13)
        # integrity values changed in ways that cancel in a byte sum / XOR fold / order-insensitive or shortened comparison: the GCM tag, and the HMAC inside the
        # CBC record (re-encrypted with the right keys, so that only the MAC comparison stands between the record and acceptance)
        for nm, tx in CL.cancelling(b13[-16:]):
            add("tag:tls13:len%d:%s" % (n, nm), seq=seq, msg=b13[:-16] + tx, touched=1, **base13)
        mac = K.hmac(T, "sm3", mk, bytes(seq) + bytes(HDR_TLS12) + len(payload).to_bytes(2, "big") + bytes(payload))
        pl = 16 - (len(payload) + 32) % 16
        for nm, mx in CL.cancelling(mac):
            add("mac:cbc:len%d:%s" % (n, nm), seq=seq, hdr3=HDR_TLS12, msg=iv16 + K.cbc_enc(T, "sm4", k, iv16, bytes(payload) + mx + bytes([pl - 1]) * pl), touched=1, **base)
        for d in (1, 2, 256, (1 << 64) - 1):
            s2 = ((int.from_bytes(seq, "big") + d) % (1 << 64)).to_bytes(8, "big")
            add("seq:tls13:len%d:+%d" % (n, d), seq=s2, msg=b13, touched=1, **base13)
    # ---- records with a right MAC whose padding is not uniform (the forger knows the keys; TLS asks for every padding octet to equal the padding length):
    # one padding byte off at the first / a middle / the last-but-one position, for short, block-sized and multi-block paddings ----
    for n in (0, 5, 20):
        k, mk, iv16, seq = rb(16), rb(32), rb(16), rng.choice(seqs)
        payload = rb(n)
        mac = K.hmac(T, "sm3", mk, bytes(seq) + bytes(HDR_TLS12) + len(payload).to_bytes(2, "big") + bytes(payload))
        base_pl = 16 - (n + 32) % 16
        for extra in (0, 16, 48) + (() if c.quick else (112, 240 - base_pl if 240 - base_pl > 0 and (240 - base_pl) % 16 == 0 else 224)):
            pl = base_pl + extra
            if pl < 2 or pl > 256:
                continue
            for j in sorted({0, pl // 2, pl - 2}):
                pad = bytearray([pl - 1]) * pl
                pad[j] ^= 0x01 if j % 2 else 0x80
                add("badpad:cbc:len%d:pad%d:byte%d" % (n, pl, j), f="tls_cbc_dec", api="oneshot", key=k, mackey=mk, seq=seq, hdr3=HDR_TLS12,
                    msg=iv16 + K.cbc_enc(T, "sm4", k, iv16, bytes(payload) + mac + bytes(pad)), touched=1)
    # ---- forged all-padding plaintexts (the forger knows the keys): must be refused, and must not crash ----
    for n in ((16, 32, 48, 64, 272) if c.quick else (16, 32, 48, 64, 80, 96, 112, 256, 272, 288)):
        k, mk, iv, iv16, seq = rb(16), rb(32), rb(12), rb(16), rng.choice(seqs)
        for pv in range(0, min(256, n + 2)):            # every padding value, incl. the ones that leave exactly / one less than / no room for the MAC
            pt = bytes([pv & 255]) * n
            body = iv16 + K.cbc_enc(T, "sm4", k, iv16, pt)
            add("allpad:cbc:len%d:pv%d" % (n, pv), f="tls_cbc_dec", api="oneshot", key=k, mackey=mk, seq=seq, hdr3=HDR_TLS12, msg=body)
        inner = bytes(n)
        hdr = b"\x17\x03\x03" + (len(inner) + 16).to_bytes(2, "big")
        ct, tag = K.gcm_enc(T, "sm4", k, K.xor(iv, b"\0\0\0\0" + seq), hdr, inner, 16)
        add("allzero:tls13:len%d" % n, f="tls13_dec", api="oneshot", key=k, iv=iv, seq=seq, msg=ct + tag)
    return out


def live(c):
    """duplicate / swap / drop / flip of application-data records on live connections"""
    scns = []
    base = []
    for proto in (257, 771, 772):
        s = {"proto": proto, "scred": "tlcp_d2" if proto == 257 else "srv_d2", "ctrust": "trust_root",
             "cs": "w100,w200,w300,r30:64,x", "ss": "r600:256,w30,r1:8"}
        base.append(s)
    honest = tlslib.run_scenarios([dict(s, id=i) for i, s in enumerate(base)], tag="c11h", procs=3)
    for r in honest:
        s = r["scn"]
        evs = r["events"]
        if not r["complete"] or evs[-1].get("crc") != 1:
            raise RuntimeError("honest baseline failed for %s" % s)
        first_w = min(i for i, e in enumerate(evs) if e["e"] == "WriteBegin")
        apprec = [e for e in evs[first_w:] if e["e"] == "Rec" and e["rtype"] == 23]
        for e in apprec:
            for kind in ("drop", "dup", "swap", "trunc"):
                scns.append(dict(s, fault=kind, dir=e["dir"], idx=e["idx"]))
            n = e["len"] - 5
            offs = sorted(set([0, 1, n // 2, n - 17, n - 1]) & set(range(n))) if c.quick else range(0, n, 3)
            for off in offs:
                scns.append(dict(s, fault="flip", dir=e["dir"], idx=e["idx"], off=off, bit=(off * 3) % 8))
            # header fields the protocol authenticates: type, version, length in TLCP / TLS 1.2; only the length in TLS 1.3
            for hb in (range(5) if s["proto"] != 772 else (3, 4)):
                for bit in ((0, 7) if c.quick else range(8)):
                    scns.append(dict(s, fault="hdrflip", dir=e["dir"], idx=e["idx"], off=hb, bit=bit))
    # long-lived connections: more than 256 records in one direction (the per-direction sequence number crosses a byte boundary) and a record
    # presented again 1, 2, 255, 256, 257 positions later -- a replay must be refused wherever it lands
    longbase = []
    for proto in (257, 771, 772):
        cred = "tlcp_d2" if proto == 257 else "srv_d2"
        longbase.append({"proto": proto, "scred": cred, "ctrust": "trust_root", "cs": "m300,r1:8,x", "ss": "r300:64,w1,r1:8", "_dir": "c2s"})
        longbase.append({"proto": proto, "scred": cred, "ctrust": "trust_root", "cs": "w1,r300:64,x", "ss": "r1:8,m300,r1:8", "_dir": "s2c"})
    lh = tlslib.run_scenarios([dict({k: v for k, v in s.items() if k != "_dir"}, id=1000 + i) for i, s in enumerate(longbase)], tag="c11lh", procs=6)
    for s0, r in zip(longbase, lh):
        evs = r["events"]
        if not r["complete"] or evs[-1].get("crc") != 1:
            raise RuntimeError("honest 300-record baseline failed for %s" % s0)
        s = {k: v for k, v in s0.items() if k != "_dir"}
        scns.append(dict(s))                                            # the honest long run is validated too
        first_w = min(i for i, e in enumerate(evs) if e["e"] == "WriteBegin")
        apprec = [e for e in evs[first_w:] if e["e"] == "Rec" and e["rtype"] == 23 and e["dir"] == s0["_dir"]]
        k0 = apprec[0]["idx"]
        if c.quick and s0["_dir"] == "s2c" and s0["proto"] != 771:
            continue
        for start in ((k0,) if c.quick else (k0, k0 + 1, k0 + 7, k0 + 40)):
            for dist in ((1, 256) if c.quick else (1, 2, 255, 256, 257)):
                scns.append(dict(s, fault="replay", dir=s0["_dir"], idx=start, off=dist))
    for i, s in enumerate(scns):
        s["id"] = i + 1
    res = tlslib.run_scenarios(scns, tag="c11l", procs=16, timeout=2000)
    execs = []
    for r in res:
        s = r["scn"]
        key = "c11:live:p%s:%s:%s:%s:off=%s:bit=%s" % (s["proto"], s.get("fault", "none"), s.get("dir", "-"), s.get("idx", 0), s.get("off", 0), s.get("bit", 0)) + (":long" if "m300" in s["cs"] + s["ss"] else "")
        c.count(1, key)
        if r["san"] or not r["complete"]:
            c.violation(key + ":crash", "driver died or sanitizer report: %s" % (r["san"] or "incomplete"), {"scenario": s, "stderr": r["stderr"][-2000:]})
            continue
        execs.append((key, s, r["events"]))
    rej, states = vlib.validate("TlsTrace", [e[2] for e in execs], tag="c11l", timeout=1500)
    c.cov["traces_validated_against_impl"] += len(execs)
    c.cov["live_trace_states"] = states
    c.cov["live_connections"] = len(execs)
    for i, j, ev in rej:
        key, s, evs = execs[i]
        c.violation(key, "live connection with a faulted application-data record is not a behaviour of the contract: first unexplained event #%d %s" % (j, json.dumps(ev)[:200]),
                    {"scenario": s, "event_index": j, "events": evs[max(0, j - 14):j + 3]})


def body():
    c = Check("C11", "model_checking")
    c.add_model(vlib.tlc_model("MCTls", "MCTls_adv"), "Tls Budget=1: record adversary incl. faults on application records; AppOnlyFromPeer (sequence numbers, keys)")
    c.add_model(vlib.tlc_model("Aead"), "Aead: accept only untouched")
    cs = gen(c)
    log("[C11] %d API cases" % len(cs))
    lines = [{k: v for k, v in x.items() if not k.startswith("_")} for x in cs]
    res = CL.run_script("modedrv", ["modedrv.c", "vh.c"], lines, tag="c11")
    execs = []
    for (case, evs, san), meta in zip(res, cs):
        key = "c11:" + meta["_key"]
        c.count(1, key)
        if san:
            c.violation(key + ":crash", "driver died / sanitizer report: %s" % san, {"case": {k: (v if len(str(v)) < 200 else str(v)[:200]) for k, v in case.items()}})
            continue
        for e in evs:
            if e["e"] == "Overlong":
                c.violation(key + ":overlong", "unprotection reported a length larger than the ciphertext", {"case": case})
        execs.append((key, case, CL.annotate([e for e in evs if e["e"] != "Overlong"])))
    rej, states = vlib.validate("CryptoTrace", [e[2] for e in execs], tag="c11", timeout=1500)
    c.cov["traces_validated_against_impl"] = len(execs)
    c.cov["trace_states"] = states
    for i, j, ev in rej:
        key, case, evs = execs[i]
        short = {kk: (vv if not isinstance(vv, list) else "<%d>" % len(vv)) for kk, vv in ev.items()}
        c.violation(key, "record protection differs from the contract (event %s)" % json.dumps(short)[:300],
                    {"case": {k: (v if len(str(v)) < 300 else str(v)[:300]) for k, v in case.items()}, "events": [{kk: (vv if not isinstance(vv, list) or len(vv) < 80 else "<%d>" % len(vv)) for kk, vv in e.items() if kk != "T"} for e in evs]})
    live(c)
    for key, case, evs in execs[:1] + execs[-1:]:
        c.sample({"key": key, "events": [json.dumps({kk: (vv if not isinstance(vv, list) else "<%d>" % len(vv)) for kk, vv in e.items()})[:200] for e in evs]})
    return c.finish(
        rule="API: protect/unprotect identity per payload length (quick: 0..69, every 97th, boundaries; thorough: all 0..16384), exact-bytes cases, and per base record the bit-flip "
             "neighbourhood of body and header, truncations, extensions, other sequence numbers, forged all-padding plaintexts; live: every application-data record x "
             "{drop, dup, swap, trunc, flips, header flips}; distinct = distinct case keys",
        trusted=["TLC", "ref block cipher / compression / GF multiplication tables", "harness/modedrv.c, harness/tlsdrv.c"],
        assumptions=["identity over all lengths is observed through the library's own protect and unprotect (bytes compared by the driver); exact bytes are recomputed by TLC for the boundary set"])


if __name__ == "__main__":
    main(body)
