#!/usr/bin/env python3
"""C17 - SM9 signatures, encryption and key exchange are correct; the pairing is bilinear.
TLC: Sm9.tla (the scheme equations over an abstract bilinear group with lazily sampled hash oracles: own signatures verify, an
accepted forgery needs a hash coincidence; decryption inverts encryption; both exchange parties derive one key), Sm9Judge.tla
(arithmetic: the tower formulas of Sm9Field.tla are evaluated over the integers on the recorded operands and checked congruent to
the recorded result; G1 chord/tangent relations; G2 results on the twist; pairing against the reference and against bilinearity
on the library's own outputs) and Sm9Trace.tla (scheme calls).  Binding: harness/sm9drv.c calls every exported sm9_z256_* operation
on boundary-biased operands and the sign / verify / encrypt / decrypt / exchange interfaces over master keys, identities and
messages; signatures and ciphertexts are cross-checked with the independent reference in both directions."""
from common import *
import hashlib
import cryptolib as CL
import json
import sm9ref as R
import sm9w as W

p, N = R.p, R.N
R256 = 1 << 256
DRV = ("sm9drv", ["sm9drv.c", "vh.c"])
i2b = R.i2b


def fp_vals(rng, m=None, extra=4):
    m = m or p
    v = [0, 1, 2, 3, m - 1, m - 2, (m - 1) // 2, (m + 1) // 2, (1 << 64) - 1, 1 << 64, (1 << 128) - 1, 1 << 128, (1 << 192) - 1, 1 << 192, 1 << 255, 5]
    return sorted({x % m for x in v}) + [rng.randrange(m) for _ in range(extra)]


def gen_arith(c):
    rng = c.rng
    lines, cases = [], []

    def put(line, **case):
        line["id"] = len(lines) + 1
        lines.append({k: (CL.hx(v) if isinstance(v, (bytes, bytearray)) else v) for k, v in line.items()})
        case["op"] = line["op"]
        cases.append(case)
    q = c.quick
    # ---- raw 256-bit / mod p / mod n ----
    raw = [0, 1, p - 1, p, p + 1, N - 1, N, R256 - 1, (1 << 64) - 1, 1 << 64, (1 << 128) - 1, (1 << 192) - 1, 1 << 255] + [rng.randrange(R256) for _ in range(3)]
    prs = [(x, y) for x in raw for y in raw]; rng.shuffle(prs)
    for x, y in prs[: (40 if q else 256)] + [(R256 - 1, R256 - 1), (R256 - 1, 1), (0, 0)]:
        for op in ("z_add", "z_sub", "z_mul", "z_cmp"):
            put({"op": op, "a": i2b(x), "b": i2b(y)}, grp="z")
    for m, tag in ((p, "modp"), (N, "modn")):
        vs = fp_vals(rng, m)
        prs = [(x, y) for x in vs for y in vs]; rng.shuffle(prs)
        must = [(x, (m - x) % m) for x in vs] + [(m - 1, 1), (1, m - 1), (m - 1, m - 1), (0, 0), (0, m - 1), (m - 2, 1)]      # sums on the reduction boundary are never thinned
        for x, y in must + prs[: (40 if q else 400)]:
            put({"op": tag + "_add", "a": i2b(x), "b": i2b(y)}, grp="z")
            put({"op": tag + "_sub", "a": i2b(x), "b": i2b(y)}, grp="z")
            if tag == "modp":
                put({"op": "modp_mont_mul", "a": i2b(x), "b": i2b(y)}, grp="z", _w=("mont_mul", x, y, m))
            else:
                put({"op": "modn_mul", "a": i2b(x), "b": i2b(y)}, grp="z", _w=("mul", x, y, m))
        if tag == "modp":        # Montgomery products with a tiny true value (the slice just above the modulus before the final correction)
            for s_small in (0, 1, 2, (1 << 64) - 1, 1 << 64, (1 << 96) - (1 << 64), 1 << 96, (1 << 128) - 1, 1 << 192):
                xx = rng.randrange(2, m)
                a_m, b_m = xx * R256 % m, pow(xx, -1, m) * s_small % m
                put({"op": "modp_mont_mul", "a": i2b(a_m), "b": i2b(b_m)}, grp="z", _w=("mont_mul", a_m, b_m, m))
            put({"op": "modp_mont_mul", "a": i2b((m - 1) * R256 % m), "b": i2b(m - 1)}, grp="z", _w=("mont_mul", (m - 1) * R256 % m, m - 1, m))
        for x in vs:
            ee = rng.choice([0, 1, 2, 3, m - 2, m - 1, rng.randrange(m)])
            if tag == "modp":
                for op in ("modp_dbl", "modp_tri", "modp_haf", "modp_neg"):
                    put({"op": op, "a": i2b(x)}, grp="z")
                put({"op": "modp_to_mont", "a": i2b(x)}, grp="z", _w=("to_mont", x, None, m))
                put({"op": "modp_from_mont", "a": i2b(x)}, grp="z", _w=("from_mont", x, None, m))
                put({"op": "modp_mont_sqr", "a": i2b(x)}, grp="z", _w=("mont_mul", x, x, m))
                if x:
                    put({"op": "modp_mont_inv", "a": i2b(x)}, grp="z", _w=("mont_inv", x, None, m))
                put({"op": "modp_mont_pow", "a": i2b(x), "b": i2b(ee)}, grp="z", expect=W.limbs(pow(x * pow(R256, -1, p), ee, p) * R256 % p))
            else:
                if x:
                    put({"op": "modn_inv", "a": i2b(x)}, grp="z", _w=("inv", x, None, m))
                put({"op": "modn_pow", "a": i2b(x), "b": i2b(ee)}, grp="z", expect=W.limbs(pow(x, ee, N)))
    for ha in [0, 1, N - 2, N - 1, N, 2 * (N - 1), (1 << 320) - 1, (1 << 320) - 2] + [rng.randrange(1 << 320) for _ in range(6 if q else 40)]:
        put({"op": "modn_from_hash", "a": ha.to_bytes(40, "big")}, grp="z", wq=W.limbs(ha // (N - 1)))
    # ---- tower ----
    fv = fp_vals(rng, p, 2)

    def rfp(): return rng.choice(fv) if rng.random() < 0.5 else rng.randrange(p)
    def r2(): return rng.choice([R.FP2_ZERO, R.FP2_ONE, R.FP2_U, (p - 1, p - 1)]) if rng.random() < 0.15 else (rfp(), rfp())
    def r4(): return (r2(), r2())
    def r12(): return (r4(), r4(), r4()) if rng.random() < 0.8 else rng.choice([R.FP12_ONE, (r4(), ((0, 0), (0, 0)), ((0, 0), (0, 0))), (((1, 0), (0, 0)), r4(), ((0, 0), (0, 0)))])
    n2, n4, n12 = (14, 8, 4) if q else (120, 60, 30)
    for _ in range(n2):
        a, b, k = r2(), r2(), rfp()
        A, B = R.fp2_to_bytes(a), R.fp2_to_bytes(b)
        for op in ("add", "sub", "mul", "inplace_mul", "mul_u"):
            put({"op": "fp2_" + op, "a": A, "b": B}, grp="tower")
        for op in ("neg", "dbl", "tri", "haf", "a_mul_u", "sqr", "inplace_sqr", "sqr_u", "conjugate", "frobenius"):
            put({"op": "fp2_" + op, "a": A}, grp="tower")
        put({"op": "fp2_mul_fp", "a": A, "k": i2b(k)}, grp="tower")
        if a != (0, 0):
            put({"op": "fp2_inv", "a": A}, grp="tower")
        if b != (0, 0):
            put({"op": "fp2_div", "a": A, "b": B}, grp="tower")
    for _ in range(n4):
        a, b, k, c2 = r4(), r4(), rfp(), r2()
        A, B = R.fp4_to_bytes(a), R.fp4_to_bytes(b)
        for op in ("add", "sub", "mul", "inplace_mul", "mul_v"):
            put({"op": "fp4_" + op, "a": A, "b": B}, grp="tower")
        for op in ("neg", "dbl", "haf", "a_mul_v", "sqr", "inplace_sqr", "sqr_v", "conjugate"):
            put({"op": "fp4_" + op, "a": A}, grp="tower")
        put({"op": "fp4_mul_fp", "a": A, "k": i2b(k)}, grp="tower")
        put({"op": "fp4_mul_fp2", "a": A, "b": R.fp2_to_bytes(c2)}, grp="tower")
        if a != ((0, 0), (0, 0)):
            put({"op": "fp4_inv", "a": A}, grp="tower")
        for kk, op in ((1, "frobenius"), (2, "frobenius2"), (3, "frobenius3")):
            put({"op": "fp4_" + op, "a": A}, grp="tower", expect=list(R.fp4_to_bytes(R.fp4_frobenius(a, kk))))
    for _ in range(n12):
        a, b = r12(), r12()
        A, B = R.fp12_to_bytes(a), R.fp12_to_bytes(b)
        for op in ("add", "sub", "mul", "inplace_mul"):
            put({"op": "fp12_" + op, "a": A, "b": B}, grp="tower")
        for op in ("neg", "dbl", "tri", "sqr", "inplace_sqr"):
            put({"op": "fp12_" + op, "a": A}, grp="tower")
        if any(any(any(x) for x in y) for y in a):
            put({"op": "fp12_inv", "a": A}, grp="tower")
        for kk, op in ((1, "frobenius"), (2, "frobenius2"), (3, "frobenius3"), (6, "frobenius6")):
            put({"op": "fp12_" + op, "a": A}, grp="tower", expect=list(R.fp12_to_bytes(R.fp12_frobenius(a, kk))))
        e = rng.choice([0, 1, 2, 3, N - 3, N - 2, rng.randrange(N - 1)])          # sm9_z256_fp12_pow requires an exponent below N-1
        put({"op": "fp12_pow", "a": A, "k": i2b(e)}, grp="tower", expect=list(R.fp12_to_bytes(R.fp12_pow(a, e))))
    # exponent shapes for every exponentiation route (zero limbs below a non-zero one, limb-edge bits, all-ones limbs, repeated nibbles), as in C13
    M64 = (1 << 64) - 1
    def shapes(mod):
        e0 = rng.randrange(mod)
        return [x % mod for x in [1 << 64, (1 << 64) + 1, 5 << 64, 1 << 128, (1 << 128) + 3, 1 << 192, (1 << 192) + (1 << 64), 1 << 63, 1 << 127, 1 << 191, M64 << 64, M64 << 128, (M64 << 128) | M64,
                                  int("1" * 64, 16), int("f0" * 32, 16), int("8" + "0" * 62 + "1", 16)] + [e0 & ~(M64 << (64 * z)) for z in range(4)] + [e0 & (M64 << (64 * z)) for z in range(1, 4)]]
    a12 = r12()
    A12 = R.fp12_to_bytes(a12)
    for e in shapes(N - 1)[: (10 if q else 99)]:
        put({"op": "fp12_pow", "a": A12, "k": i2b(e)}, grp="tower", expect=list(R.fp12_to_bytes(R.fp12_pow(a12, e))))
    for e in shapes(p)[: (10 if q else 99)]:
        x = rng.randrange(2, p)
        put({"op": "modp_mont_pow", "a": i2b(x), "b": i2b(e)}, grp="z", expect=W.limbs(pow(x * pow(R256, -1, p), e, p) * R256 % p))
    for e in shapes(N)[: (10 if q else 99)]:
        x = rng.randrange(2, N)
        put({"op": "modn_pow", "a": i2b(x), "b": i2b(e)}, grp="z", expect=W.limbs(pow(x, e, N)))
    # sparse tower elements (one non-zero coordinate, the special-cased branches of inversion / squaring / multiplication): every position, several values
    Z2, Z4 = (0, 0), ((0, 0), (0, 0))
    for x in [1, 2, 3, p - 1, rng.randrange(2, p)] + ([] if q else [rng.randrange(2, p) for _ in range(6)]):
        sp2 = [(x, 0), (0, x)]
        sp4 = [(e, Z2) for e in sp2] + [(Z2, e) for e in sp2]
        sp12 = [(e, Z4, Z4) for e in sp4] + [(Z4, e, Z4) for e in sp4] + [(Z4, Z4, e) for e in sp4]
        for a in sp2:
            A, B = R.fp2_to_bytes(a), R.fp2_to_bytes(r2())
            for op in ("inv", "sqr", "inplace_sqr", "sqr_u", "frobenius"):
                put({"op": "fp2_" + op, "a": A}, grp="tower")
            for op in ("mul", "inplace_mul", "mul_u"):
                put({"op": "fp2_" + op, "a": A, "b": B}, grp="tower")
                put({"op": "fp2_" + op, "a": B, "b": A}, grp="tower")
            put({"op": "fp2_div", "a": B, "b": A}, grp="tower")
        for a in sp4:
            A, B = R.fp4_to_bytes(a), R.fp4_to_bytes(r4())
            for op in ("inv", "sqr", "inplace_sqr", "sqr_v"):
                put({"op": "fp4_" + op, "a": A}, grp="tower")
            for op in ("mul", "inplace_mul", "mul_v"):
                put({"op": "fp4_" + op, "a": A, "b": B}, grp="tower")
                put({"op": "fp4_" + op, "a": B, "b": A}, grp="tower")
        for a in (sp12 if not q or x in (1, p - 1) else sp12[::3]):
            A, B = R.fp12_to_bytes(a), R.fp12_to_bytes(r12())
            for op in ("inv", "sqr", "inplace_sqr"):
                put({"op": "fp12_" + op, "a": A}, grp="tower")
            put({"op": "fp12_mul", "a": A, "b": B}, grp="tower")
            put({"op": "fp12_mul", "a": B, "b": A}, grp="tower")
    # ---- G1 ----
    G = R.P1
    pts = [G, R.g1_mul(2, G), R.g1_mul(N - 1, G), R.g1_mul(rng.randrange(1, N), G), R.g1_mul(rng.randrange(1, N), G)]
    def o1(P): return b"" if P is None else R.g1_to_bytes(P)

    def ptcase(P1, P2):
        cs = {"x1": W.limbs(P1[0]) if P1 else [], "y1": W.limbs(P1[1]) if P1 else [], "inf1": P1 is None, "x2": W.limbs(P2[0]) if P2 else [], "y2": W.limbs(P2[1]) if P2 else [], "inf2": P2 is None}
        if P1 and P2 and R.g1_add(P1, P2) is not None:
            cs.update(W.g1_step(P1, P2))
        return cs
    pool = pts + [None]
    for P1 in pool:
        put({"op": "point_dbl", "P": o1(P1)}, grp="g1", **ptcase(P1, P1))
        put({"op": "point_neg", "P": o1(P1)}, grp="g1", x1=W.limbs(P1[0]) if P1 else [], y1=W.limbs(P1[1]) if P1 else [], inf1=P1 is None)
        for P2 in pool:
            put({"op": "point_add", "P": o1(P1), "Q": o1(P2)}, grp="g1", **ptcase(P1, P2))
            put({"op": "point_sub", "P": o1(P1), "Q": o1(P2)}, grp="g1", **ptcase(P1, R.g1_neg(P2)))
            if P1 is not None:
                put({"op": "point_add_jac", "P": o1(P1), "Q": o1(P2)}, grp="g1", **ptcase(R.g1_dbl(P1), P2))
            # the same operands held as other Jacobian representatives (X l^2, Y l^3, Z l): equal and opposite points are then not equal coordinate-wise
            for lp, lq in ((True, False), (False, True), (True, True)):
                lam = {k: i2b(rng.randrange(2, p)) for k, on in (("lamP", lp), ("lamQ", lq)) if on}
                put(dict({"op": "point_add", "P": o1(P1), "Q": o1(P2)}, **lam), grp="g1", **ptcase(P1, P2))
                put(dict({"op": "point_sub", "P": o1(P1), "Q": o1(P2)}, **lam), grp="g1", **ptcase(P1, R.g1_neg(P2)))
        if P1:
            put({"op": "point_is_on_curve", "P": o1(P1)}, grp="g1", expectbool=True)
            put({"op": "point_equ", "P": o1(P1), "Q": o1(P1)}, grp="g1", expectbool=True)
            put({"op": "point_equ", "P": o1(P1), "Q": o1(R.g1_neg(P1))}, grp="g1", expectbool=False)
            put({"op": "point_equ", "P": o1(P1), "Q": o1(P1), "lamP": i2b(rng.randrange(2, p))}, grp="g1", expectbool=True)
            put({"op": "point_equ", "P": o1(P1), "Q": o1(P1), "lamP": i2b(rng.randrange(2, p)), "lamQ": i2b(rng.randrange(2, p))}, grp="g1", expectbool=True)
            put({"op": "point_dbl", "P": o1(P1), "lamP": i2b(rng.randrange(2, p))}, grp="g1", **ptcase(P1, P1))
            bad = b"\x04" + i2b(P1[0]) + i2b((P1[1] + 1) % p)
            put({"op": "point_from_octets", "a": bad}, grp="g1", expectbool=False)
            put({"op": "point_from_octets", "a": o1(P1)}, grp="g1", expectbool=True)
            put({"op": "point_from_octets", "a": b"\x04" + i2b(p) + i2b(P1[1])}, grp="g1", expectbool=False)
    # distinct points with the same y: on y^2 = x^3 + 5 these are (w x, y) and (w^2 x, y) for a primitive cube root of unity w (p = 1 mod 3) -- G1 and, with
    # w in F_p acting on the F_p^2 coordinate, the twist as well
    w3 = next(w for w in (pow(g_, (p - 1) // 3, p) for g_ in range(2, 30)) if w != 1)
    for P1 in pts[:3]:
        for ww in (w3, w3 * w3 % p):
            P2 = (P1[0] * ww % p, P1[1])
            assert R.g1_on_curve(P2)
            for lam in ({}, {"lamP": i2b(rng.randrange(2, p))}, {"lamP": i2b(rng.randrange(2, p)), "lamQ": i2b(rng.randrange(2, p))}):
                put(dict({"op": "point_add", "P": o1(P1), "Q": o1(P2)}, **lam), grp="g1", **ptcase(P1, P2))
                put(dict({"op": "point_sub", "P": o1(P1), "Q": o1(P2)}, **lam), grp="g1", **ptcase(P1, R.g1_neg(P2)))
            put({"op": "point_equ", "P": o1(P1), "Q": o1(P2)}, grp="g1", expectbool=False)
    ks_shapes = shapes(N)
    ks = ks_shapes[: (6 if q else 99)] + [0, 1, 2, 3, N - 2, N - 1, N, N + 1, R256 - 1, 1 << 255, (1 << 128) - 1, int("aa" * 32, 16), int("55" * 32, 16)] + [rng.randrange(R256) for _ in range(3 if q else 40)]

    def exp1(Q):
        d = {"einf": 1 if Q is None else 0, "expect": list(o1(Q))}
        if Q is not None:
            d.update(W.oncurve_w(*Q))
        return d
    for k in ks:
        put({"op": "point_mul_generator", "k": i2b(k)}, grp="g1", **exp1(R.g1_mul(k % N, G) if k % N else None))
        for Pt in pts[1:4] if not q else pts[2:3]:
            put({"op": "point_mul", "k": i2b(k), "P": o1(Pt)}, grp="g1", **exp1(R.g1_mul(k % N, Pt) if k % N else None))
    # ---- G2 ----
    G2 = R.P2
    tw = [G2, R.g2_mul(2, G2), R.g2_mul(N - 1, G2), R.g2_mul(rng.randrange(1, N), G2)]
    def o2(Q): return b"" if Q is None else R.g2_to_bytes(Q)

    def exp2(Q):
        d = {"einf": 1 if Q is None else 0, "expect": list(o2(Q))}
        d["wt"] = W.ontwist_w(*Q) if Q is not None else []
        return d
    tpool = tw + [None]
    for Q1 in tpool:
        put({"op": "twist_dbl", "P": o2(Q1)}, grp="g2", **exp2(R.g2_dbl(Q1) if Q1 else None))
        put({"op": "twist_neg", "P": o2(Q1)}, grp="g2", **exp2(R.g2_neg(Q1)))
        for Q2 in tpool:
            s = R.g2_add(Q1, Q2)
            put({"op": "twist_add_full", "P": o2(Q1), "Q": o2(Q2)}, grp="g2", **exp2(s))
            put({"op": "twist_add", "P": o2(Q1), "Q": o2(Q2)}, grp="g2", **exp2(s))
            put({"op": "twist_sub", "P": o2(Q1), "Q": o2(Q2)}, grp="g2", **exp2(R.g2_add(Q1, R.g2_neg(Q2))))
            # other Jacobian representatives (twist_add / twist_sub are mixed additions: only their first operand may be one)
            l2 = lambda: R.fp2_to_bytes((rng.randrange(1, p), rng.randrange(0, p)))
            put({"op": "twist_add", "P": o2(Q1), "Q": o2(Q2), "lamP": l2()}, grp="g2", **exp2(s))
            put({"op": "twist_sub", "P": o2(Q1), "Q": o2(Q2), "lamP": l2()}, grp="g2", **exp2(R.g2_add(Q1, R.g2_neg(Q2))))
            for lam in ({"lamP": l2()}, {"lamQ": l2()}, {"lamP": l2(), "lamQ": l2()}):
                put(dict({"op": "twist_add_full", "P": o2(Q1), "Q": o2(Q2)}, **lam), grp="g2", **exp2(s))
        if Q1:
            put({"op": "twist_is_on_curve", "P": o2(Q1)}, grp="g2", expectbool=True)
            put({"op": "twist_equ", "P": o2(Q1), "Q": o2(Q1)}, grp="g2", expectbool=True)
            put({"op": "twist_equ", "P": o2(Q1), "Q": o2(R.g2_neg(Q1))}, grp="g2", expectbool=False)
            put({"op": "twist_equ", "P": o2(Q1), "Q": o2(Q1), "lamP": R.fp2_to_bytes((rng.randrange(1, p), rng.randrange(0, p)))}, grp="g2", expectbool=True)
            put({"op": "twist_dbl", "P": o2(Q1), "lamP": R.fp2_to_bytes((rng.randrange(1, p), rng.randrange(0, p)))}, grp="g2", **exp2(R.g2_dbl(Q1)))
            x, y = Q1
            put({"op": "twist_from_octets", "a": b"\x04" + R.fp2_to_bytes(x) + R.fp2_to_bytes(((y[0] + 1) % p, y[1]))}, grp="g2", expectbool=False)
            put({"op": "twist_from_octets", "a": o2(Q1)}, grp="g2", expectbool=True)
    for Q1 in tw[:3]:
        for ww in (w3, w3 * w3 % p):
            Q2 = ((Q1[0][0] * ww % p, Q1[0][1] * ww % p), Q1[1])
            if not R.g2_on_curve(Q2):
                continue
            s2 = R.g2_add(Q1, Q2)
            put({"op": "twist_add_full", "P": o2(Q1), "Q": o2(Q2)}, grp="g2", **exp2(s2))
            put({"op": "twist_add", "P": o2(Q1), "Q": o2(Q2)}, grp="g2", **exp2(s2))
            put({"op": "twist_add_full", "P": o2(Q1), "Q": o2(Q2), "lamP": R.fp2_to_bytes((rng.randrange(1, p), rng.randrange(0, p))), "lamQ": R.fp2_to_bytes((rng.randrange(1, p), rng.randrange(0, p)))}, grp="g2", **exp2(s2))
            put({"op": "twist_sub", "P": o2(Q1), "Q": o2(Q2)}, grp="g2", **exp2(R.g2_add(Q1, R.g2_neg(Q2))))
            put({"op": "twist_equ", "P": o2(Q1), "Q": o2(Q2)}, grp="g2", expectbool=False)
    for k in ks[: (8 if q else len(ks))] + ks[-2:]:
        put({"op": "twist_mul_generator", "k": i2b(k)}, grp="g2", **exp2(R.g2_mul(k % N, G2) if k % N else None))
        put({"op": "twist_mul", "k": i2b(k), "P": o2(tw[3])}, grp="g2", **exp2(R.g2_mul(k % N, tw[3]) if k % N else None))
    # ---- pairing ----
    for _ in range(3 if q else 24):
        a, b = rng.choice([1, 2, N - 1, rng.randrange(1, N)]), rng.choice([1, 3, N - 1, rng.randrange(1, N)])
        Pp, Qq = rng.choice(pts), rng.choice(tw)
        put({"op": "pairing", "P": o1(Pp), "Q": o2(Qq)}, grp="pair", expect=list(R.fp12_to_bytes(R.pairing(Qq, Pp))))
        put({"op": "bilinear", "P": o1(Pp), "Q": o2(Qq), "a": i2b(a), "b": i2b(b)}, grp="pair", expect=list(R.fp12_to_bytes(R.pairing(R.g2_mul(b, Qq), R.g1_mul(a, Pp)))))
    for ident in [b"A", b"Alice", b"Bob", bytes(range(1, 200)), b"x" * 1000] + ([] if q else [b"y" * 8191, b"\xff" * 64]):
        for hid in (1, 2, 3):
            put({"op": "hash1", "ident": ident, "hid": hid}, grp="pair", expect=list(i2b(R.H1(ident, hid))))
    return lines, cases


def zwit(w, rv):
    kind, x, y, m = w
    A, B = {"mul": (x * y if y is not None else 0, rv), "mont_mul": (rv * R256, x * (y or 0)), "to_mont": (x * R256, rv), "from_mont": (rv * R256, x), "mont_inv": (x * rv, R256 * R256), "inv": (x * rv, 1)}[kind]
    return {"wk": W.limbs(abs(A - B) // m), "ws": 0 if A >= B else 1}


DEFAULTS = (("a", []), ("b", []), ("r", []), ("k", []), ("c", 0), ("inf", 0), ("bad", 0), ("lvl", 0), ("w", []), ("wk", []), ("ws", 0), ("wq", []), ("expect", []), ("expectbool", False), ("einf", 0),
            ("x1", []), ("y1", []), ("inf1", False), ("x2", []), ("y2", []), ("inf2", False), ("lam", []), ("w1k", []), ("w1s", 0), ("w2k", []), ("w2s", 0), ("w3k", []), ("w3s", 0),
            ("wck", []), ("wcs", 0), ("wt", []), ("lhs", []), ("rhs", []), ("base", []), ("tothen", []))


def run_arith(c):
    lines, cases = gen_arith(c)
    log("[C17] %d arithmetic cases" % len(lines))
    res = CL.run_script(*DRV, lines, tag="c17a", procs=14)
    jc, meta = [], []
    for (line, evs, san), case in zip(res, cases):
        key = "c17:%s:%s" % (case["op"], ":".join(shortv(line.get(k, "")) for k in ("a", "b", "k", "P", "Q", "lamP", "lamQ", "ident", "hid") if line.get(k, "") not in ("", "-")))
        c.count(1, key)
        if san or not evs:
            c.violation(key[:160] + ":crash", "driver died / sanitizer report: %s" % san, {"line": {k: str(v)[:200] for k, v in line.items()}})
            continue
        ev = evs[0]
        j = {k: v for k, v in case.items() if not k.startswith("_")}
        hb = lambda s: list(bytes.fromhex(s)) if s and s != "-" else []
        for f in ("a", "b", "k"):
            j[f] = hb(line.get(f, ""))
        for f in ("r", "lhs", "rhs", "base", "tothen"):
            if f in ev:
                j[f] = hb(ev[f])
        j.update(c=ev.get("c", 0), inf=ev.get("inf", 0), bad=ev.get("bad", 0))
        if "_w" in case:
            j.update(zwit(case["_w"], int.from_bytes(bytes(j.get("r", [])), "big")))
        if case["grp"] == "tower" and "expect" not in case and not j["bad"]:
            lvl, ws = W.tower_witness(case["op"], bytes(j["a"]), bytes(j["b"]), int.from_bytes(bytes(j["k"]), "big"), bytes(j.get("r", [])))
            j.update(lvl=lvl, w=ws)
        jc.append(j); meta.append((key, line, ev))
    for j in jc:
        for f, d in DEFAULTS:
            j.setdefault(f, d)
    bad, states = vlib.judge("Sm9Judge", jc, cfg="Z256Judge", tag="c17", timeout=3000, shards=16)
    c.cov["states"] += states
    c.cov["traces_validated_against_impl"] += len(jc)
    for i, info in bad:
        key, line, ev = meta[i]
        c.violation(key[:200], "result of %s differs from the SM9 mathematics: %s" % (jc[i]["op"], json.dumps({k: (v if len(str(v)) < 80 else str(v)[:80]) for k, v in ev.items()})[:300]),
                    {"line": {k: str(v)[:800] for k, v in line.items()}, "event": {k: str(v)[:800] for k, v in ev.items()}})
    return meta


# ---------------------------------------------------------------- schemes
def parse_sig(der):
    """SM9Signature ::= SEQUENCE { h OCTET STRING, S BIT STRING }  ->  (h, S) or None"""
    try:
        import derw
        t, body, end = derw.read_tlv(der)
        if t != 0x30 or end != len(der): return None
        (t1, hb), (t2, sb) = derw.children(body)
        if t1 != 4 or t2 != 3 or sb[0] != 0: return None
        return int.from_bytes(hb, "big"), R.g1_from_bytes(sb[1:])
    except Exception:
        return None


def parse_ct(der):
    """SM9Cipher ::= SEQUENCE { EnType INTEGER, C1 BIT STRING, C3 OCTET STRING, CipherText OCTET STRING }"""
    try:
        import derw
        t, body, end = derw.read_tlv(der)
        (t0, en), (t1, c1), (t3, c3), (t2, c2) = derw.children(body)
        return R.g1_from_bytes(c1[1:]), c2, c3
    except Exception:
        return None


def run_schemes(c):
    rng = c.rng
    q = c.quick
    rb = lambda k: bytes(rng.getrandbits(8) for _ in range(k))
    masters = [1, 2, N - 1, N - 2] + [rng.randrange(1, N) for _ in range(1 if q else 6)]
    ids = [b"A", b"Alice", b"Bob", b"alice@example.com", rb(64), b"z" * 1000] + ([] if q else [b"q" * 8191, rb(300)])
    msgs = [b"", b"a", b"Chinese IBS standard", rb(55), rb(56), rb(64), rb(255), rb(1000)]
    lines, facts = [], []

    def put(line, **f):
        line["id"] = len(lines) + 1
        lines.append({k: (CL.hx(v) if isinstance(v, (bytes, bytearray)) else v) for k, v in line.items()})
        facts.append(f)
    # --- signing: library signs, reference verifies; follow-ups are built from the produced signatures
    plan = []
    for ks in masters:
        for ident in (ids if ks == masters[-1] else ids[:2]):
            for m in (msgs if ident == ids[1] else msgs[:3]):
                if q and rng.random() < 0.5 and not (ks == masters[-1] and ident == ids[1]):
                    continue
                plan.append((ks, ident, m))
    for ks, ident, m in plan:
        put({"op": "sign", "ks": i2b(ks), "ident": ident, "msg": m or "-", "chunk": rng.choice([0, 1, 32, 63]), "seed": rng.randrange(1 << 30)}, kind="sign", ks=ks, ident=ident, msg=m)
    # --- encryption
    eplan = []
    for ke in masters:
        for ident in (ids if ke == masters[-1] else ids[:2]):
            for ml in ([0, 1, 31, 32, 33, 64, 200, 255] if ident == ids[1] else [16]):
                if q and rng.random() < 0.4 and not (ke == masters[-1] and ident == ids[1]):
                    continue
                eplan.append((ke, ident, rb(ml)))
    for ke, ident, m in eplan:
        put({"op": "encrypt", "ks": i2b(ke), "ident": ident, "msg": m or "-", "seed": rng.randrange(1 << 30)}, kind="encrypt", ke=ke, ident=ident, msg=m)
    # --- key exchange
    for ke in masters[:2] + masters[-1:]:
        for a, b in ((ids[1], ids[2]), (ids[0], ids[3]), (ids[4], ids[1])):
            for klen in (16, 48) if not q else (rng.choice([16, 32, 48]),):
                put({"op": "exchange", "ks": i2b(ke), "ident": a, "idb": b, "klen": klen, "seed": rng.randrange(1 << 30)}, kind="exchange", ke=ke, a=a, b=b, klen=klen)
    # --- encapsulation and exchange with a one-octet key, many times: about one run in 256 has to retry with a second nonce (an all-zero key is not output)
    # (windows around entropy streams known to need the second nonce -- found by the first 1600-trial run -- keep the quick tier short and deterministic;
    # a fresh sample of streams is added on top)
    for op, known in (("kemloop", ((7000, 181), (7002, 153))), ("exchloop", ((7001, 4), (7003, 237)))):
        for sd, at in known:
            put({"op": op, "ks": i2b(masters[0]), "ident": ids[1], "idb": ids[2], "klen": 1, "trials": 5, "start": max(0, at - 2), "seed": sd}, kind=op, part="known-%d-%d" % (sd, at))
        for part in range(1 if q else 16):
            put({"op": op, "ks": i2b(masters[0]), "ident": ids[1], "idb": ids[2], "klen": 1, "trials": 300, "seed": 8000 + part + c.seed * 100}, kind=op, part=part)
    # --- user key extraction at and next to the one master secret per identity for which it must fail: ks = -H1(ID||hid) (t1 = 0), and ks = that +- 1
    for op, hid in (("sign_extract", R.HID_SIGN), ("enc_extract", R.HID_ENC), ("exch_extract", R.HID_EXCH)):
        for ident in ids[:2]:
            h1 = R.H1(ident, hid)
            for delta in (0, 1, N - 1):
                ksx = (-h1 + delta) % N
                if ksx == 0:
                    continue
                put({"op": op, "ks": i2b(ksx), "ident": ident, "seed": rng.randrange(1 << 30)}, kind=op, ks=ksx, ident=ident, hid=hid, t1zero=(delta == 0))
    res = CL.run_script(*DRV, lines, tag="c17s", procs=14)
    execs, follow, ffacts = [], [], []

    def fol(key, line, **f):
        line["id"] = len(follow) + 1
        follow.append({k: (CL.hx(v) if isinstance(v, (bytes, bytearray)) else v) for k, v in line.items()}); ffacts.append((key, f))
    pubs_cache = {}
    for (line, evs, san), f in zip(res, facts):
        kind = f["kind"]
        key = "c17:%s:%s" % (kind, ":".join("%s=%s" % (k, (v.hex()[:12] + "/%d" % len(v)) if isinstance(v, bytes) else (hex(v)[:14] if isinstance(v, int) and v > 1 << 32 else v)) for k, v in f.items() if k != "kind"))
        c.count(1, key)
        if san or not evs:
            c.violation(key[:180] + ":crash", "driver died / sanitizer report: %s" % san, {"line": {k: str(v)[:200] for k, v in line.items()}})
            continue
        ev = dict(evs[0])
        if kind in ("kemloop", "exchloop"):
            ev.setdefault("xrc", -99); ev.setdefault("rcbad", -99); ev.setdefault("agree", -1); ev.setdefault("trials", 0)
            execs.append((key, [ev]))
            continue
        if kind.endswith("_extract"):
            ref = "" if f["t1zero"] else (R.g1_to_bytes(R.sign_key_extract(f["ks"], f["ident"])).hex() if kind == "sign_extract" else R.g2_to_bytes(R.enc_key_extract(f["ks"], f["ident"], f["hid"])).hex())
            ev.update(t1zero=f["t1zero"], refkey=ref, key=ev.get("ds", ev.get("de", ""))); ev.setdefault("xrc", -99)
            execs.append((key, [ev]))
            continue
        if kind == "sign":
            ks, ident, m = f["ks"], f["ident"], f["msg"]
            Ppubs = pubs_cache.setdefault(("s", ks), R.sign_master_pub(ks))
            ds = R.sign_key_extract(ks, ident)
            sig = bytes.fromhex(ev.get("sig", ""))
            ps = parse_sig(sig)
            ev.update(refppub=R.g2_to_bytes(Ppubs).hex(), refds=R.g1_to_bytes(ds).hex(), refverifies=bool(ps) and R.verify(Ppubs, ident, m, ps[0], ps[1]))
            ev.setdefault("ds", ""); ev.setdefault("rc", -99)
            execs.append((key, [ev]))
            if ev.get("rc") != 1 or not ps:
                continue
            base = {"op": "verify", "ks": i2b(ks), "ident": ident, "msg": m or "-", "sig": sig}
            fol(key + ":verify", dict(base), genuine=True)
            fol(key + ":verify:other-id", dict(base, ident=ident + b"x"), genuine=False)
            fol(key + ":verify:other-id2", dict(base, ident=(b"B" if ident != b"B" else b"C")), genuine=False)
            fol(key + ":verify:other-msg", dict(base, msg=m + b"\x00"), genuine=False)
            if m:
                mm = bytearray(m); mm[rng.randrange(len(m))] ^= 1 << rng.randrange(8)
                fol(key + ":verify:msg-bit", dict(base, msg=bytes(mm)), genuine=False)
            fol(key + ":verify:other-master", dict(base, ks=i2b(ks % (N - 1) + 1)), genuine=False)
            nb = len(sig) * 8
            bits = range(nb) if (not q and line["id"] % 6 == 0) else sorted(set(rng.randrange(nb) for _ in range(10 if q else 40)))
            for bit in bits:
                x = bytearray(sig); x[bit // 8] ^= 0x80 >> (bit % 8)
                fol(key + ":verify:sigbit%d" % bit, dict(base, sig=bytes(x)), genuine=False)
            # boundary values of h, and S replaced by other group elements
            for hh, tag in ((0, "h0"), (N - 1, "hN-1"), (N, "hN"), ((ps[0] + 1) % N, "h+1"), (R256 - 1, "hmax")):
                fol(key + ":verify:" + tag, dict(base, sig=R.signature_to_der(hh, ps[1])), genuine=False)
            # the same point S in a non-canonical encoding: a coordinate written as value + p (where that still fits 32 octets) is not below the field prime
            Sb = R.g1_to_bytes(ps[1]); offS = sig.find(Sb)
            if offS >= 0 and sig.count(Sb) == 1:
                for ci, cn in ((0, "x"), (1, "y")):
                    v = int.from_bytes(Sb[1 + 32 * ci:33 + 32 * ci], "big") + R.p
                    if v < 2 ** 256:
                        fol(key + ":verify:S-%s+p" % cn, dict(base, sig=sig[:offS + 1 + 32 * ci] + v.to_bytes(32, "big") + sig[offS + 33 + 32 * ci:]), genuine=False)
            fol(key + ":verify:S-neg", dict(base, sig=R.signature_to_der(ps[0], R.g1_neg(ps[1]))), genuine=False)
            fol(key + ":verify:S-gen", dict(base, sig=R.signature_to_der(ps[0], R.P1)), genuine=False)
            # a signature made by the reference with its own r must be accepted
            for _ in range(1 if q else 3):
                try:
                    h2, S2 = R.sign(Ppubs, ds, m, rng.randrange(1, N))
                    fol(key + ":verify:reference-made", dict(base, sig=R.signature_to_der(h2, S2)), genuine=True)
                except ValueError:
                    pass
        elif kind == "encrypt":
            ke, ident, m = f["ke"], f["ident"], f["msg"]
            Ppube = pubs_cache.setdefault(("e", ke), R.enc_master_pub(ke))
            de = R.enc_key_extract(ke, ident)
            ct = bytes.fromhex(ev.get("ct", ""))
            pc = parse_ct(ct)
            ev.update(refppub=R.g1_to_bytes(Ppube).hex(), refdecrypts=bool(pc) and R.decrypt(de, ident, pc[0], pc[1], pc[2]) == m)
            ev.setdefault("rc", -99)
            execs.append((key, [ev]))
            if ev.get("rc") != 1 or not pc:
                continue
            base = {"op": "decrypt", "ks": i2b(ke), "ident": ident, "ct": ct}
            dehex = R.g2_to_bytes(de).hex()
            fol(key + ":decrypt", dict(base), genuine=True, expect=m.hex(), refde=dehex)
            other = ident + b"x"
            fol(key + ":decrypt:other-identity-key", dict(base, ident=other, idb=other), genuine=False, expect=m.hex(), refde=R.g2_to_bytes(R.enc_key_extract(ke, other)).hex())
            fol(key + ":decrypt:other-identity-key-claiming-addressee", dict(base, ident=other, idb=ident), genuine=False, expect=m.hex(), refde=R.g2_to_bytes(R.enc_key_extract(ke, other)).hex())
            fol(key + ":decrypt:right-key-other-claimed-id", dict(base, idb=other), genuine=False, expect=m.hex(), refde=dehex)
            ke2 = ke % (N - 1) + 1
            fol(key + ":decrypt:other-master", dict(base, ks=i2b(ke2)), genuine=False, expect=m.hex(), refde=R.g2_to_bytes(R.enc_key_extract(ke2, ident)).hex())
            nb = len(ct) * 8
            bits = range(nb) if (not q and line["id"] % 6 == 0) else sorted(set(rng.randrange(nb) for _ in range(10 if q else 40)))
            for bit in bits:
                x = bytearray(ct); x[bit // 8] ^= 0x80 >> (bit % 8)
                fol(key + ":decrypt:ctbit%d" % bit, dict(base, ct=bytes(x)), genuine=False, expect=m.hex(), refde=dehex)
            C1b = R.g1_to_bytes(pc[0]); offC = ct.find(C1b)
            if offC >= 0 and ct.count(C1b) == 1:         # C1 with a coordinate written as value + p
                for ci, cn in ((0, "x"), (1, "y")):
                    v = int.from_bytes(C1b[1 + 32 * ci:33 + 32 * ci], "big") + R.p
                    if v < 2 ** 256:
                        fol(key + ":decrypt:C1-%s+p" % cn, dict(base, ct=ct[:offC + 1 + 32 * ci] + v.to_bytes(32, "big") + ct[offC + 33 + 32 * ci:]), genuine=False, expect=m.hex(), refde=dehex)
            # the C3 tag changed in ways that cancel in a byte sum / XOR fold / order-insensitive or shortened comparison (located by its value in the DER)
            c3 = pc[2]
            off3 = ct.find(c3)
            if off3 >= 0 and ct.count(c3) == 1:
                for nm, tx in CL.cancelling(c3):
                    fol(key + ":decrypt:c3:%s" % nm, dict(base, ct=ct[:off3] + tx + ct[off3 + len(c3):]), genuine=False, expect=m.hex(), refde=dehex)
            for _ in range(1 if q else 3):
                try:
                    C1, C2, C3 = R.encrypt(Ppube, ident, m, rng.randrange(1, N))
                    fol(key + ":decrypt:reference-made", dict(base, ct=R.ciphertext_to_der(C1, C2, C3)), genuine=True, expect=m.hex(), refde=dehex)
                except ValueError:
                    pass
        else:
            ke, a, b, klen = f["ke"], f["a"], f["b"], f["klen"]
            Ppube = pubs_cache.setdefault(("e", ke), R.enc_master_pub(ke))
            try:
                rA = int(ev["rA"], 16); RA = R.g1_from_bytes(bytes.fromhex(ev["RA"])); RB = R.g1_from_bytes(bytes.fromhex(ev["RB"]))
                deA = R.exch_key_extract(ke, a)
                sk = R.exch_A(Ppube, a, b, deA, rA, RA, RB, klen)[3]
                ev.update(refRA=R.g1_to_bytes(R.exch_RA(Ppube, b, rA)).hex(), refsk=sk.hex())
            except Exception as ex:
                ev.update(refRA="?", refsk="?")
            for k in ("xa", "xb", "rc1a", "rc1b", "rc2a"):
                ev.setdefault(k, -99)
            for k in ("RA", "skA", "skB"):
                ev.setdefault(k, "")
            execs.append((key, [ev]))
    res2 = CL.run_script(*DRV, follow, tag="c17t", procs=14)
    for (line, evs, san), (key, f) in zip(res2, ffacts):
        c.count(1, key)
        if san or not evs:
            c.violation(key[:180] + ":crash", "process aborted / sanitizer report while verifying or decrypting: %s" % str(san)[:400], {"line": {k: str(v)[:600] for k, v in line.items()}})
            continue
        ev = dict(evs[0], **f)
        ev.setdefault("rc", -99); ev.setdefault("xrc", -99); ev.setdefault("out", ""); ev.setdefault("de", "")
        execs.append((key, [ev]))
    rej, states = vlib.validate("Sm9Trace", [e[1] for e in execs], tag="c17s", timeout=1200)
    c.cov["traces_validated_against_impl"] += len(execs)
    c.cov["trace_states"] = states
    for i, j, ev in rej:
        key, evs = execs[i]
        c.violation(key[:200], "call %s is not allowed by the SM9 contract: %s" % (ev.get("op"), json.dumps({k: (v if not isinstance(v, str) or len(v) < 50 else "<%d>" % len(v)) for k, v in ev.items()})[:400]), {"events": evs})
    return execs


def shortv(v):
    v = str(v)
    return v if len(v) <= 18 else v.lstrip("0")[:6] + "~" + hashlib.sha1(v.encode()).hexdigest()[:10]


def body():
    c = Check("C17", "exploration")
    c.add_model(vlib.tlc_model("Sm9", "Sm9_full" if not c.quick else "Sm9", timeout=2400), "Sm9: scheme equations over an abstract bilinear group of prime order with lazily sampled H2: own signatures verify, every alteration moves "
                "the oracle point, only the addressee decrypts, both exchange sides agree")
    meta = run_arith(c)
    execs = run_schemes(c)
    for key, line, ev in meta[:1] + meta[-1:]:
        c.sample({"key": key, "line": {k: str(v)[:80] for k, v in line.items()}, "event": {k: str(v)[:80] for k, v in ev.items()}})
    for key, evs in execs[:1]:
        c.sample({"key": key, "events": [json.dumps({k: (v if not isinstance(v, str) or len(v) < 40 else "<%d>" % len(v)) for k, v in e.items()})[:300] for e in evs]})
    # the command line tools as a user's session (tools/clilib.py, spec/Cli.tla): artefacts made by one tool, opened by another under right and wrong circumstances;
    # the exit status is what a script sees
    import clilib
    clilib.judge_sessions(c, clilib.sessions(c, "C17", ['sm9'], "c17", [0, 1, 16, 4095, 4096, 4097, 10000] + ([] if c.quick else [8192, 65537, 1000000])), "c17")
    return c.finish(
        rule="schemes: master secrets 1, 2, N-2, N-1, random x identities of 1..1000 (thorough 8191) bytes x messages of 0..1000 bytes / plaintexts of 0..255 bytes; per signature: right / other identity / other message / "
             "other master / bit flips of the DER signature / boundary h / substituted S / reference-made signatures; per ciphertext: addressee, other identity's key, other claimed identity, other master, bit flips, "
             "reference-made ciphertexts; exchanges for 3 identity pairs; arithmetic: boundary-biased operands (0, 1, 2, p-1, p-2, (p+-1)/2, limb boundaries, random; zero / one / u / sparse tower elements; generator, small and [N-1] multiples, random points, infinity, "
             "all pairs incl. P=Q, P=-Q) for every exported sm9_z256_* operation; scalars incl. 0, N, N+-1, 2^256-1; distinct = distinct (operation, operands)",
        trusted=["TLC (Sm9Trace.tla judge)", "TLC BigNat evaluation of the Sm9Field tower formulas", "witnesses from Python integers (cannot make a wrong result pass)", "ref/sm9ref.py for Frobenius, exponentiation, scalar multiplication, pairing, H1"],
        assumptions=["Frobenius / exponentiation / scalar multiplication / pairing values are the reference's (self-tested on the GM/T 0044 example)"])


if __name__ == "__main__":
    main(body)
