#!/usr/bin/env python3
"""C07 - certificate chain validation is sound and complete for the supported profile.
TLC: Chain.tla -- every chain of leaf [+ TLCP encryption leaf] + 0..MaxCAs intermediates + trust anchor over the attribute product,
with ghost variables `sound` / `must` (the property) and the path walk of the implementation; invariants accept => sound,
reject => ~must; negative config (basicConstraints not required) must violate Soundness.
Binding: the chains TLC prints (one per distinct finished walk + simulation samples) are concretised with the reference X.509
writer and given to x509_certs_verify / x509_certs_verify_tlcp; VIOLATION iff the code accepts where ~sound or rejects where must."""
from common import *
import cryptolib as CL
import json, hashlib
from derw import *

NOW = 1790000000
DAY = 86400
_kcache = {}


def key(i):
    if i not in _kcache:
        d = (0x3c3c3c3c5a5a5a5a0123456789abcdef0fedcba98765432111223344 * (i + 7) + 13 * i) % (n - 3) + 1
        _kcache[i] = (d, mul(d, G))
    return _kcache[i]


K_NONCE = 0x6ac7f0e3b1d5a9c2418f3b7d2e6a1c5f9b3d7e1a5c9f2b6d0e4a8c1f5b9d3e7
KG_X = None


def fast_sign(d, P, tbs):
    """SM2 signature with a fixed nonce (x([k]G) computed once); these are throw-away test certificates"""
    global KG_X
    if KG_X is None:
        KG_X = mul(K_NONCE, G)[0]
    e = digest(P, tbs)
    r = (e + KG_X) % n
    s = (pow(1 + d, -1, n) * (K_NONCE - r * d)) % n
    return r, s


_cert_cache = {}


def build_cert(level, attrs, issuer_level, serial, flip=False, fakeroot=None):
    """certificate of entity `level` with the attribute record, issued by entity `issuer_level` (None: self-signed anchor);
    flip: the other criticality of the known extensions (keyUsage and basicConstraints not critical, extKeyUsage critical)"""
    ck = (level, json.dumps(attrs, sort_keys=True), issuer_level, flip, fakeroot)
    if ck in _cert_cache:
        return _cert_cache[ck]
    d, P = key(level)
    subject = "N%d" % level
    if issuer_level is None:
        if fakeroot == level:
            d, P = key(90 + level)          # a self-signed look-alike of the anchor: same name, another key
        issuer, (idd, iP) = subject, (d, P)
    else:
        issuer = ("N%d" % issuer_level)
        if not attrs["iss"]:            # an issuer name that is not the next certificate's subject: another name, a strict prefix of it (fewer RDNs), or it plus one more RDN
            # (the second concretisation of a chain -- `flip` -- takes the near-miss names)
            issuer = "Nowhere" if not flip else ([('C', 'CN', 0x13)] if level % 2 == 0 else [('C', 'CN', 0x13), ('CN', "N%d" % issuer_level, 0x0c), ('OU', 'x', 0x0c)])
        idd, iP = key(90 + issuer_level) if fakeroot == issuer_level else key(issuer_level)
        if attrs["sig"] == "wrongkey":
            idd, iP = key(90 + level)
    exts = []
    if attrs["bc"] == "ca":
        exts.append(ext_bc(True, attrs["plc"] if attrs["plc"] >= 0 else None, crit=not flip))
    elif attrs["bc"] == "notca":
        exts.append(ext_bc(False, None, crit=not flip))
    ku = {"sign": ["digitalSignature"], "enc": ["keyEncipherment"], "certsign": ["keyCertSign", "cRLSign"] if not flip else ["keyCertSign"], "sign+certsign": ["digitalSignature", "keyCertSign"],
          "crlsign": ["cRLSign"] if not flip else ["digitalSignature", "cRLSign"]}.get(attrs["ku"])
    if ku:
        exts.append(ext_ku(ku, crit=not flip))
    eku = {"server": ["serverAuth"], "client": ["clientAuth"], "other": ["codeSigning"]}.get(attrs["eku"])
    if eku:
        exts.append(ext_eku(eku, crit=flip))
    if attrs["crit"] == "unknown":
        exts.append(ext_unknown(False))
    elif attrs["crit"] == "unknowncrit":
        exts.append(ext_unknown(True))
    nb, na = {"in": (NOW - 30 * DAY, NOW + 300 * DAY), "before": (NOW + DAY, NOW + 100 * DAY), "after": (NOW - 100 * DAY, NOW - DAY)}[attrs["valid"]]
    tbs = tbs_cert(serial, issuer, subject, P, nb, na, exts)
    algmismatch = issuer_level is not None and attrs["sig"] == "bad" and flip
    if algmismatch:                     # one way of being badly signed: the algorithm named inside the signed part is not the one outside (the signature itself is good)
        i0 = tbs.index(bytes.fromhex("2a811ccf55018375")); tbs = tbs[:i0] + bytes.fromhex("2a8648ce3d040302") + tbs[i0 + 8:]
    r, s = fast_sign(idd, iP, tbs)
    if issuer_level is not None and attrs["sig"] == "bad" and not algmismatch:
        s = (s ^ 4) or 5
    der = seq(tbs, seq(oid(OID_SM2SIGN)), dbits(sigval(r, s)))
    _cert_cache[ck] = der
    return der


def concretise_rootsent(form, hist, fake):
    """the as-built chain with the root certificate appended by the peer: the genuine anchor (fake=False), or a self-signed look-alike with the anchor's name
    and another key under which the rest of the chain is consistently signed (fake=True); the trust store holds the genuine anchor"""
    certs = [h for h in hist]
    anchor = certs.pop()
    nlead = 2 if form == "tlcp" else 1
    cas = certs[nlead:]
    top = len(cas) + 1
    fr = top if fake else None
    ders = [build_cert(0, certs[0], 1, 1000, fakeroot=fr)]
    if form == "tlcp":
        ders.append(build_cert(50, certs[1], 1, 1050, fakeroot=fr))
    for i, ca in enumerate(cas):
        ders.append(build_cert(i + 1, ca, i + 2, 1001 + i, fakeroot=fr))
    ders.append(build_cert(top, anchor, None, 1900 + top, fakeroot=fr))
    return b"".join(ders), build_cert(top, anchor, None, 1900 + top)


def concretise(form, hist, flip=False):
    """hist: leaf, [enc leaf], CAs..., anchor (or the Absent record) -> (chain DER, trust DER)"""
    certs = [h for h in hist]
    anchor = certs.pop()
    nlead = 2 if form == "tlcp" else 1
    cas = certs[nlead:]
    # entity levels: leaf 0, enc leaf 50, CA i -> i+1, anchor -> len(cas)+1
    first_issuer = 1
    ders = [build_cert(0, certs[0], first_issuer, 1000, flip)]
    if form == "tlcp":
        ders.append(build_cert(50, certs[1], first_issuer, 1050, flip))
    for i, ca in enumerate(cas):
        ders.append(build_cert(i + 1, ca, i + 2, 1001 + i, flip))
    top = len(cas) + 1
    if anchor.get("bc") == "none":
        trust = build_cert(77, {"bc": "ca", "plc": -1, "ku": "certsign", "eku": "absent", "valid": "in", "sig": "good", "iss": True, "crit": "none"}, None, 1077)
    else:
        trust = build_cert(top, anchor, None, 1900 + top, flip)
    return b"".join(ders), trust


def chains_from(r):
    out = []
    for p in r["prints"]:
        if p.startswith('<<"CHAIN"'):
            v = vlib.parse_tla_value(p)
            out.append({"form": v[1], "role": v[2], "depth": v[3], "hist": v[4], "sound": v[5], "must": v[6], "impl": v[7]})
    return out


def body():
    c = Check("C07", "model_checking")
    c.add_model(vlib.tlc_model("Chain", "Chain_quick", coverage=False, workers=16), "Chain MaxCAs=2, depths {0,1,5}, TLS+TLCP, server+client, reduced attribute product: Soundness, Completeness")
    if not c.quick:
        c.add_model(vlib.tlc_model("Chain", "Chain_full", coverage=False, workers=16, timeout=2400), "Chain MaxCAs=4 (chains of 1..5 certificates + anchor), depths 0..5, full attribute product")
    r = vlib.tlc("Chain", "Chain_neg", workers=16, timeout=600)
    if "Soundness" not in r["violated"]:
        raise RuntimeError("vacuity guard: the model without the basicConstraints requirement did not violate Soundness")
    c.cov["tlc_runs"].append({"model": "negative config: CA rules only if basicConstraints present -> Soundness violated as expected", "states": r["states"]})
    # chains for the replay: (a) the as-built chains and everything within one or two attribute changes of them (what a single missing
    # check would let through), proposed here and JUDGED BY TLC (ChainJudge evaluates Chain!SoundOf / MustOf); (b) walks simulated by
    # TLC from Chain.tla; thorough adds (c) every finished walk of the exhaustive search
    GOOD = {"bc": "absent", "plc": -1, "ku": "sign", "eku": "absent", "valid": "in", "sig": "good", "iss": True, "crit": "none"}
    DOM = {"bc": ["absent", "ca", "notca"], "ku": ["absent", "sign", "enc", "certsign", "sign+certsign", "crlsign"], "eku": ["absent", "server", "client", "other"],
           "valid": ["in", "before", "after"], "sig": ["good", "bad", "wrongkey"], "iss": [True, False], "crit": ["none", "unknown", "unknowncrit"], "plc": [-1, 0, 1, 2, 3]}
    ABSENT = {"bc": "none", "plc": -1, "ku": "absent", "eku": "absent", "valid": "in", "sig": "good", "iss": True, "crit": "none"}

    def asbuilt(form, k):
        h = [dict(GOOD)] + ([dict(GOOD, ku="enc")] if form == "tlcp" else [])
        h += [dict(GOOD, bc="ca", plc=j, ku="certsign") for j in range(k)]
        h.append(dict(GOOD, bc="ca", plc=-1, ku="certsign"))
        return h

    def muts(h, pos):
        out = []
        last = pos == len(h) - 1
        for f, vals in DOM.items():
            for v in vals:
                if v == h[pos][f] or (last and f in ("sig", "iss")):
                    continue
                x = dict(h[pos]); x[f] = v
                if f == "bc" and v != "ca":
                    x["plc"] = -1
                if f == "plc" and x["bc"] != "ca":
                    continue
                out.append(x)
        # a certificate without any extensions at all (no extensions field): as an issuer it is not a CA, wherever in the chain it sits
        if any(h[pos][f] != v for f, v in (("bc", "absent"), ("ku", "absent"), ("eku", "absent"), ("crit", "none"))):
            out.append(dict(h[pos], bc="absent", plc=-1, ku="absent", eku="absent", crit="none"))
        if last:
            out.append(dict(ABSENT))
        return out
    proposed = []
    for form in ("tls", "tlcp"):
        for role in ("server", "client"):
            for k in range(0, 4 if c.quick else 5):
                for depth in sorted({0, 1, k - 1, k, 5} - {-1}):
                    h0 = asbuilt(form, k)
                    proposed.append({"form": form, "role": role, "depth": depth, "hist": h0})
                    singles = []
                    for pos in range(len(h0)):
                        for x in muts(h0, pos):
                            h = [dict(y) for y in h0]; h[pos] = x
                            singles.append((pos, h))
                            proposed.append({"form": form, "role": role, "depth": depth, "hist": h})
                    if k <= (1 if c.quick else 2):      # pairs of changes
                        c.rng.shuffle(singles)
                        for pos, h in singles[: (40 if c.quick else 400)]:
                            for pos2 in range(len(h0)):
                                if pos2 == pos:
                                    continue
                                ms = muts(h0, pos2)
                                for x in (ms if not c.quick else c.rng.sample(ms, min(4, len(ms)))):
                                    h2 = [dict(y) for y in h]; h2[pos2] = x
                                    proposed.append({"form": form, "role": role, "depth": depth, "hist": h2})
    bad, _ = None, None
    # TLC judges the proposed chains
    import concurrent.futures as cf
    shards = 8
    def judge(kk):
        part = proposed[kk::shards]
        p = os.path.join(vlib.BUILD, "traces", "c07j_%d_%d.ndjson" % (os.getpid(), kk))
        os.makedirs(os.path.dirname(p), exist_ok=True)
        vlib.write_ndjson(p, part)
        r = vlib.tlc("ChainJudge", env={"TRACE": p}, workers=1, timeout=900, tag="c07j%d" % kk)
        vs = [vlib.parse_tla_value(x) for x in r["prints"] if x.startswith('<<"VERDICT"')]
        if len(vs) != len(part) or r["errors"]:
            raise RuntimeError("ChainJudge evaluated %d of %d chains: %s" % (len(vs), len(part), r["errors"][:2]))
        for v in vs:
            part[v[1] - 1].update(sound=v[2], must=v[3], impl=None)
        return r["states"]
    with cf.ThreadPoolExecutor(shards) as ex:
        jst = sum(ex.map(judge, range(shards)))
    c.cov["tlc_runs"].append({"model": "ChainJudge: property evaluated by TLC on proposed chains", "chains": len(proposed), "states": jst})
    for ch in proposed:
        ch["_prop"] = True
    chains = list(proposed)
    # (TLC evaluates the emitting invariant on every successor it generates while simulating, so a handful of walks yields tens of thousands of chains)
    sims = vlib.tlc("Chain", "Chain_sim", workers=4, timeout=900, simulate=(2 if c.quick else 40), depth=12, seed=c.seed)
    sc = chains_from(sims)
    c.rng.shuffle(sc)
    chains += sc[: (4000 if c.quick else 200000)]
    if not c.quick:
        g = vlib.tlc("Chain", "Chain_gen", workers=1, timeout=1800)
        chains += chains_from(g)
    if len(chains) < 200:
        raise RuntimeError("behaviour generation produced only %d chains: %s" % (len(chains), sims["errors"][:2]))
    seen, uniq = set(), []
    for ch in chains:
        k = hashlib.sha1(json.dumps([ch["form"], ch["role"], ch["depth"], ch["hist"]], sort_keys=True).encode()).hexdigest()
        if k not in seen:
            seen.add(k)
            uniq.append(ch)
    log("[C07] %d distinct chains (%d in the must-accept region, %d unsound)" % (len(uniq), sum(1 for x in uniq if x["must"]), sum(1 for x in uniq if not x["sound"])))
    # the acceptance conditions do not mention criticality of the known extensions: every unsound proposed chain is also built with keyUsage and
    # basicConstraints NOT critical and extKeyUsage critical, and must still be refused (the must-accept side is only claimed for the toolkit's own form)
    nprop = sum(1 for ch in uniq if ch.get("_prop"))
    for ch in [x for x in uniq if x.get("_prop") and not x["sound"] and (not c.quick or len(x["hist"]) <= 4)]:
        uniq.append(dict(ch, flip=True, must=False))
    log("[C07] + %d criticality variants of unsound chains" % sum(1 for x in uniq if x.get("flip")))
    # the peer sends the root as well: the genuine one (conditions hold; no must-accept claim), and a look-alike carrying the anchor's name (must be refused:
    # the last certificate has to verify under a certificate of the trust store, a matching name is not enough)
    for form in ("tls", "tlcp"):
        for role in ("server", "client"):
            for k in range(0, 3):
                h0 = asbuilt(form, k)
                uniq.append({"form": form, "role": role, "depth": 5, "hist": h0, "sound": True, "must": False, "rootsent": "genuine"})
                uniq.append({"form": form, "role": role, "depth": 5, "hist": h0, "sound": False, "must": False, "rootsent": "lookalike"})
    lines = []
    for i, ch in enumerate(uniq):
        chain, trust = concretise(ch["form"], ch["hist"], ch.get("flip", False)) if not ch.get("rootsent") else concretise_rootsent(ch["form"], ch["hist"], ch["rootsent"] == "lookalike")
        lines.append({"id": i + 1, "form": ch["form"], "role": ch["role"], "depth": ch["depth"], "chain": chain.hex(), "trust": trust.hex()})
    res = CL.run_script("chaindrv", ["chaindrv.c", "vh.c"], lines, tag="c07")
    drift = 0
    for (case, evs, san), ch in zip(res, uniq):
        desc = "%s:%s:d%d:" % (ch["form"], ch["role"], ch["depth"]) + "|".join(
            "bc=%s,plc=%s,ku=%s,eku=%s,%s,sig=%s,iss=%s,%s" % (h["bc"], h["plc"], h["ku"], h["eku"], h["valid"], h["sig"], h["iss"], h["crit"]) for h in ch["hist"])
        key = "c07:" + desc + (":othercrit" if ch.get("flip") else "") + (":rootsent=" + ch["rootsent"] if ch.get("rootsent") else "")
        c.count(1, key)
        if san or not evs:
            c.violation(key[:150] + ":crash", "driver died / sanitizer report: %s" % san, {"chain": ch})
            continue
        rc = evs[0]["rc"]
        c.cov["traces_validated_against_impl"] += 1
        if rc == 1 and not ch["sound"]:
            c.violation(key, "chain accepted although the property's acceptance conditions do not hold (sound = FALSE)", {"chain": ch, "script": case})
        elif rc != 1 and ch["must"]:
            c.violation(key, "chain rejected although it satisfies every condition and is built the way the CA commands build it (must = TRUE)", {"chain": ch, "script": case})
        if ch.get("impl") is not None and (rc == 1) != (ch["impl"] == "accept"):
            drift += 1
    c.cov["model_drift"] = drift      # code verdict differs from the Impl layer in the don't-care region: a note, not an alarm
    for ch in uniq[:1] + [x for x in uniq if x["must"]][:1]:
        c.sample({"form": ch["form"], "role": ch["role"], "depth": ch["depth"], "hist": ch["hist"], "sound": ch["sound"], "must": ch["must"]})
    # the command line tools as a user's session (tools/clilib.py, spec/Cli.tla): artefacts made by one tool, opened by another under right and wrong circumstances;
    # the exit status is what a script sees
    import clilib
    clilib.judge_sessions(c, clilib.sessions(c, "C07", ['chain'], "c07", [0, 1, 16, 4095, 4096, 4097, 10000] + ([] if c.quick else [8192, 65537, 1000000])), "c07")
    return c.finish(
        rule="chains = the finished walks TLC reaches (one per distinct abstract state) + simulated walks, each concretised to real certificates; distinct = distinct attribute "
             "sequences; a case is decided by TLC's ghost variables sound / must (the property), never by the harness",
        trusted=["TLC", "reference X.509 writer and SM2 signer (ref/derw.py, ref/sm2ref.py)", "harness/chaindrv.c (interposed clock)"],
        assumptions=["attribute classes stand for their concrete representatives (e.g. 'after' = expired yesterday)"])


if __name__ == "__main__":
    main(body)
