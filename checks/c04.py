#!/usr/bin/env python3
"""C04 - ciphers and modes match their standards, invert, and are chunking-invariant.
TLC: Stream.tla buffer machines (enc / dec / aead hold-back), all chunkings; behaviour generation of chunkings.
Binding: SM4 and AES in every mode of the API (one-shot, streaming, in place, block_cipher dispatch); each execution is validated
against CryptoTrace.tla, where TLC recomputes the mode from Modes.tla over block-cipher tables of the reference implementations.
Decryption inputs are produced by the independent reference, so "decrypt(encrypt)" is checked against a second implementation."""
from common import *
import cryptolib as CL
import constructions as K
import json

STREAM = ["ecb_enc", "ecb_dec", "cbc_enc", "cbc_dec", "ctr", "ctr32", "ofb", "cfb_enc", "cfb_dec", "xts_units_enc", "xts_units_dec",
          "gcm_enc", "gcm_dec", "cbc_mac", "cbc_hmac_enc", "cbc_hmac_dec", "ctr_hmac_enc", "ctr_hmac_dec"]


def gen(c, chunkings):
    rng = c.rng
    out = []
    rb = lambda n: bytes(rng.getrandbits(8) for _ in range(n))
    T = K.Tab()     # scratch table: the reference is used here only to manufacture decryption inputs

    def add(**kw):
        kw["id"] = len(out) + 1
        out.append({k: (CL.hx(v) if isinstance(v, (bytes, bytearray)) else v) for k, v in kw.items()})

    def dec_input(f, p, m):
        k, iv = p["key"], p.get("iv", b"")
        if f == "ecb_dec": return K.ecb_enc(T, p["c"], k, m)
        if f == "cbc_dec": return K.cbc_pad_enc(T, p["c"], k, iv, m)
        if f == "cbc_dec_blocks": return K.cbc_enc(T, p["c"], k, iv, m)
        if f == "cfb_dec": return K.cfb(T, p["c"], k, iv, p["s"], m, True)
        if f == "xts_dec": return K.xts(T, p["c"], k[:16], k[16:], iv, m, True)
        if f == "xts_units_dec":
            u = p["unit"]
            return b"".join(K.xts(T, p["c"], k[:16], k[16:], ((int.from_bytes(iv, "little") + j) % (1 << 128)).to_bytes(16, "little"), m[u * j:u * j + u], True) for j in range(len(m) // u))
        if f == "gcm_dec": return b"".join(K.gcm_enc(T, p["c"], k, iv, p["aad"], m, p["taglen"]))
        if f == "ccm_dec": return b"".join(K.ccm_enc(T, p["c"], k, iv, p["aad"], m, p["taglen"]))
        if f == "cbc_hmac_dec": return K.cbc_hmac_enc(T, k, p["mackey"], iv, p["aad"], m)
        if f == "ctr_hmac_dec": return K.ctr_hmac_enc(T, k, p["mackey"], iv, p["aad"], m)
        return m

    def params(f, cipher="sm4", keylen=16):
        p = {"c": cipher, "key": rb(32 if f.startswith("xts") else keylen)}
        if f in ("ecb_enc", "ecb_dec", "cbc_mac"):
            return p
        p["iv"] = rb(16)
        if f.startswith("ctr") and rng.random() < 0.3:
            p["iv"] = rb(rng.choice([0, 8, 12])) + b"\xff" * 16      # counter about to wrap
            p["iv"] = p["iv"][-16:]
        if f.startswith("cfb"):
            p["s"] = rng.randrange(1, 17)
        if f.startswith("xts_units"):
            p["unit"] = rng.choice([16, 17, 31, 32, 33, 48, 100])
            if rng.random() < 0.3:
                p["iv"] = b"\xff" * rng.choice([1, 2, 15]) + rb(16)
                p["iv"] = p["iv"][:16]
        if f.startswith("gcm") or f.startswith("ccm") or "hmac" in f:
            p["aad"] = rb(rng.choice([0, 1, 13, 14, 15, 16, 17, 31, 32, 40]))
        if f.startswith("gcm"):
            p["iv"] = rb(rng.choice([12, 12, 1, 8, 11, 13, 16, 17, 63, 64]))
            p["taglen"] = rng.randrange(12, 17)
        if f.startswith("ccm"):
            p["iv"] = rb(rng.randrange(7, 14))
            p["taglen"] = rng.choice([4, 6, 8, 10, 12, 14, 16])
        if "hmac" in f:
            p["mackey"] = rb(32)
        return p

    def length_for(f, p, n):
        if f.startswith("ecb") or "blocks" in f:
            return n - n % 16
        if f.startswith("xts_units"):
            return max(p["unit"], n - n % p["unit"])
        return n

    # ---- streaming interfaces (SM4): every TLC-generated chunking, scaled to the 16-byte block ----
    for f in STREAM:
        sel = chunkings if not c.quick else chunkings[::4]
        for i, ch in enumerate(sel):
            p = params(f)
            real = CL.scale(ch, 16)
            n = length_for(f, p, sum(real))
            m = dec_input(f, p, rb(n)) if "dec" in f else rb(n)
            if f in ("gcm_dec", "cbc_hmac_dec", "ctr_hmac_dec", "cbc_dec", "xts_units_dec", "ecb_dec", "cfb_dec") or True:
                # re-cut the chunking to the actual input length
                cuts, acc = [], 0
                for r in real:
                    r = min(r, len(m) - acc)
                    cuts.append(r)
                    acc += r
                add(f=f, api="stream", chunks=",".join(map(str, cuts)), msg=m, **p)   # in-place use is exercised on the one-shot calls: a buffering stream context shifts output against input
    # ---- one-shot interfaces: dense lengths ----
    top = 80 if c.quick else 1100
    ONESHOT = [("cbc_enc", "sm4"), ("cbc_dec", "sm4"), ("cbc_enc_blocks", "sm4"), ("cbc_dec_blocks", "sm4"), ("ctr", "sm4"), ("ctr32", "sm4"), ("ofb", "sm4"),
               ("cfb_enc", "sm4"), ("cfb_dec", "sm4"), ("xts_enc", "sm4"), ("xts_dec", "sm4"), ("gcm_enc", "sm4"), ("gcm_dec", "sm4"), ("ccm_enc", "sm4"), ("ccm_dec", "sm4"),
               ("ecb_enc", "sm4"), ("ecb_dec", "sm4"),
               ("ecb_enc", "aes"), ("ecb_dec", "aes"), ("cbc_enc", "aes"), ("cbc_dec", "aes"), ("cbc_enc_blocks", "aes"), ("cbc_dec_blocks", "aes"), ("ctr", "aes"), ("gcm_enc", "aes"), ("gcm_dec", "aes")]
    for f, cipher in ONESHOT:
        for n in range(0, top + 1):
            if (f.startswith("ecb") or "blocks" in f) and n % 16:
                continue
            if f.startswith("xts") and n < 16:
                continue
            keylen = 16 if cipher == "sm4" else rng.choice([16, 24, 32])
            p = params(f, cipher, keylen)
            m = dec_input(f, p, rb(n)) if "dec" in f else rb(n)
            add(f=f, api="oneshot", msg=m, inplace=1 if n % 5 == 2 else 0, **p)
    # CCM / GCM formatting boundaries: every AAD length 0..40 (and the 2^16-2^8 encoding switch in thorough), every nonce and tag size
    for f in ("ccm_enc", "ccm_dec", "gcm_enc"):
        # (the CCM AAD length encoding switches from 2 octets to ff fe + 4 octets at 2^16 - 2^8 = 65280; GCM has no such switch and keeps the long ones for thorough)
        for al in list(range(0, 41)) + ([65279, 65280, 65281, 65535, 65536] if (not c.quick or f != "gcm_enc") else []):
            p = params(f)
            p["aad"] = rb(al)
            n = rng.choice([0, 1, 16, 33])
            add(f=f, api="oneshot", msg=dec_input(f, p, rb(n)) if "dec" in f else rb(n), **p)
    for nl in range(7, 14):
        for tl in (4, 6, 8, 10, 12, 14, 16):
            p = params("ccm_enc")
            p.update(iv=rb(nl), taglen=tl)
            add(f="ccm_enc", api="oneshot", msg=rb(rng.choice([0, 5, 16, 47])), **p)
    for il in range(1, 65):
        for tl in ((12, 16) if c.quick else range(12, 17)):
            p = params("gcm_enc")
            p.update(iv=rb(il), taglen=tl)
            add(f="gcm_enc", api="oneshot", msg=rb(rng.choice([0, 5, 16, 47])), **p)
    # GCM with an IV that is not 12 bytes long: J0 comes out of GHASH, so its low counter bytes can be anything -- IVs are searched (reference GHASH) for which
    # J0 ends in ff, 00, ffff, 00ff, fe: the inc32 that makes the first counter block then carries (or must not)
    for cipher in ("sm4", "aes"):
        key = rb(16)
        h = T.E(cipher, key, b"\0" * 16)
        want = {b"\xff": None, b"\x00": None, b"\xfe": None, b"\xff\xff": None, b"\x00\xff": None, b"\xff\x00": None} if not c.quick else {b"\xff": None, b"\x00": None, b"\xff\xff": None}
        for il in (8, 13, 16, 20):
            found = dict(want)
            for t_ in range(70000 if any(len(w) > 1 for w in want) else 2000):
                iv = rb(il)
                j0 = K.gcm_j0(T, h, iv)
                for w in found:
                    if found[w] is None and j0.endswith(w):
                        found[w] = iv
                if all(v is not None for v in found.values()):
                    break
                if il != 13 and t_ > 3000:        # the two-byte patterns are searched for one IV length only
                    break
            for w, iv in found.items():
                if iv is None:
                    continue
                for n_ in (1, 16, 33):
                    p = {"c": cipher, "key": key, "iv": iv, "aad": rb(5), "taglen": 16}
                    add(f="gcm_enc", api="oneshot", msg=rb(n_), **p)
                    add(f="gcm_dec", api="oneshot", msg=b"".join(K.gcm_enc(T, cipher, key, iv, p["aad"], rb(n_), 16)), **p)
    # counter carries inside the CCM counter field: a long nonce leaves a 2-byte counter, which crosses a byte boundary after 255 blocks
    for nl, ln in ((13, 4079), (13, 4080), (13, 4081), (13, 4097), (12, 4112)) + (((13, 8192), (13, 65519), (11, 70000)) if not c.quick else ()):
        for f in ("ccm_enc", "ccm_dec"):
            p = params(f)
            p.update(iv=rb(nl), taglen=16)
            add(f=f, api="oneshot", msg=dec_input(f, p, rb(ln)) if "dec" in f else rb(ln), **p)
    # counter carries in CTR / CTR32 / GCM: many blocks from a counter whose low byte is about to wrap, and long messages
    for f in ("ctr", "ctr32", "ofb", "cbc_enc", "gcm_enc"):
        for ln in ((4096, 4113) if c.quick else (4096, 4113, 16384, 70000)):
            p = params(f)
            if f.startswith("ctr"):
                p["iv"] = rb(12) + bytes([rng.randrange(256), 0xff, 0xff, 0xf0 + rng.randrange(16)])
            add(f=f, api="oneshot", msg=rb(ln), **p)
            add(f=f, api="stream", msg=rb(ln), chunks="%d,%d" % (rng.randrange(1, 4000), rng.randrange(1, 97)), **p)
    # block_cipher dispatch
    for cipher in ("sm4",):
        for f in ("ecb_enc", "ecb_dec"):
            for n in (16, 32, 160):
                p = params(f, cipher, 16)
                add(f=f, api="blockcipher", msg=rb(n), **p)
    # malformed inputs that must be refused: padding, lengths
    for _ in range(20 if c.quick else 200):
        p = params("cbc_dec")
        good = K.cbc_pad_enc(T, "sm4", p["key"], p["iv"], rb(rng.randrange(0, 40)))
        bad = bytearray(good)
        bad[-1 - rng.randrange(0, 16)] ^= 1 << rng.randrange(8)
        add(f="cbc_dec", api=rng.choice(["oneshot", "stream"]), msg=bytes(bad), **p)
        add(f="cbc_dec", api="oneshot", msg=good[:-rng.randrange(1, 16)], **p)
    # plaintexts whose padding is not uniform: every padding length 2..16 with one padding byte off (first / middle / last but one), and padding values 0 and 17
    for cipher in ("sm4", "aes"):
        for v in range(2, 17):
            for j in sorted({0, v // 2, v - 2}):
                p = params("cbc_dec", cipher, 16)
                body = rb(rng.choice([0, 16, 32]) + 16 - v)
                pad = bytearray([v]) * v
                pad[j] ^= 0x01 if (v + j) % 2 else 0x80
                ctb = K.cbc_enc(T, cipher, p["key"], p["iv"], body + bytes(pad))
                for api in ("oneshot", "stream"):
                    add(f="cbc_dec", api=api, msg=ctb, note="badpad_v%d_j%d" % (v, j), **(dict(p, chunks="%d" % (len(ctb) // 2)) if api == "stream" else p))
        for v in (0, 17, 32, 255):
            p = params("cbc_dec", cipher, 16)
            add(f="cbc_dec", api="oneshot", msg=K.cbc_enc(T, cipher, p["key"], p["iv"], rb(16) + bytes([v]) * 16), note="padvalue%d" % v, **p)
    return out


def key_of(case):
    return "modedrv:%s:%s:%s:%s" % (case["f"], case.get("api"), case.get("c", "sm4"),
                                    ":".join("%s=%s" % (k, (v if len(str(v)) < 20 else "len%d" % (len(str(v)) // 2))) for k, v in case.items() if k not in ("f", "api", "c", "id", "key", "mackey")))


def run_cases(c, cs, variant="asan", tag="c04", prop_what="output differs from the mode's definition over the reference block cipher"):
    res = CL.run_script("modedrv", ["modedrv.c", "vh.c"], cs, variant=variant, tag=tag)
    execs = []
    for case, evs, san in res:
        k = key_of(case) + ("" if variant == "asan" else ":" + variant)
        c.count(1, k)
        if san:
            c.violation(k + ":crash", "driver died / sanitizer report: %s" % san, {"case": case})
            continue
        if any(e.get("unset") for e in evs):
            c.violation(k + ":outlen-unset", "an update call returned 1 without reporting how many bytes it wrote (*outlen keeps the caller's old value)", {"case": case, "events": [{kk: vv for kk, vv in e.items() if kk != "T"} for e in evs][:12]})
        execs.append((k, case, CL.annotate(evs)))
    rej, states = vlib.validate("CryptoTrace", [e[2] for e in execs], tag=tag, timeout=1500, max_reject=12)
    c.cov["traces_validated_against_impl"] += len(execs)
    c.cov["trace_states"] = c.cov.get("trace_states", 0) + states
    for i, j, ev in rej:
        k, case, evs = execs[i]
        short = {kk: (vv if kk not in ("T", "in", "out") else "<%d>" % len(vv)) for kk, vv in ev.items()}
        c.violation(k, "%s (event #%d %s)" % (prop_what, j, json.dumps(short)[:300]),
                    {"case": case, "event_index": j, "events": [{kk: vv for kk, vv in e.items() if kk != "T"} for e in evs]})
    return execs


def stream_cipher_cases(c, chunkings):
    """ZUC-128/256 keystream, byte and bit-exact (EEA3) encryption, EIA3 / ZUC / ZUC-256 MACs in every chunking, ChaCha20 block counter"""
    rng = c.rng
    rb = lambda k: bytes(rng.getrandbits(8) for _ in range(k))
    out = []

    def add(**kw):
        kw["id"] = len(out) + 1
        out.append({k: (CL.hx(v) if isinstance(v, (bytes, bytearray)) else v) for k, v in kw.items()})
    q = c.quick
    keys = [bytes(16), b"\xff" * 16, rb(16), rb(16)]
    for key in keys:
        iv = rng.choice([bytes(16), b"\xff" * 16, rb(16)])
        for nw in (0, 1, 2, 33) + (() if q else (257, 1024)):
            add(f="zuc_ks", api="oneshot", key=key, iv=iv, nwords=nw)
        k32, iv23 = rng.choice([bytes(32), b"\xff" * 32, rb(32)]), rng.choice([bytes(23), rb(17) + bytes(6), rb(23)])
        iv23 = iv23[:17] + bytes(b & 0x3f for b in iv23[17:])       # ZUC-256: the last six IV bytes carry 6-bit values... packed form is produced by the reference
        add(f="zuc256_ks", api="oneshot", key=k32, iv=iv23, nwords=rng.choice([1, 2, 20]))
        for L in (list(range(0, 40)) + [63, 64, 65, 255, 256, 1000]) if not q else (0, 1, 3, 4, 5, 8, 31, 32, 33, 100):
            add(f="zuc_enc", api="oneshot", key=key, iv=iv, msg=rb(L) or "-")
        for ch in chunkings[:: (6 if q else 1)][: (12 if q else 200)]:
            msg = rb(sum(ch))
            add(f="zuc_enc", api="stream", key=key, iv=iv, msg=msg or "-", nbits=8 * len(msg), chunks=",".join(map(str, ch)) or "0")
        for nbits in ([1, 7, 8, 9, 31, 32, 33, 63, 64, 65, 100, 193, 800] if q else list(range(1, 130)) + [193, 255, 256, 257, 800, 2047, 2048, 4019]):
            nby = (nbits + 31) // 32 * 4
            msg = rb(nby)
            count, bearer, d = rng.choice([0, 1, 0x7fffffff, 0x80000000, 0xffffffff, rng.getrandbits(32)]), rng.randrange(32), rng.randrange(2)
            add(f="eea3", api="oneshot", key=key, msg=msg, nbits=nbits, count=count, bearer=bearer, dir=d)
            add(f="eia3", api="oneshot", key=key, msg=msg, nbits=nbits, count=count, bearer=bearer, dir=d)
            whole = nbits // 8
            cut = sorted(rng.sample(range(0, whole + 1), min(whole + 1, rng.randrange(0, 3))))
            chs = [b - a for a, b in zip([0] + cut, cut + [whole])] if whole else [0]
            add(f="zuc_mac", api="stream", key=key, iv=iv, msg=msg[:(nbits + 7) // 8], nbits=nbits, chunks=",".join(map(str, chs)))
            for mb in (32, 64, 128):
                add(f="zuc256_mac", api="stream", key=k32, iv=iv23, msg=msg[:(nbits + 7) // 8], nbits=nbits, macbits=mb, chunks=",".join(map(str, chs)))
    for _ in range(4 if q else 20):
        k, nonce = rb(32), rb(12)
        for ctr in (0, 1, 0xfffffffe, 0xffffffff, rng.getrandbits(32)):
            add(f="chacha20_ks", api="oneshot", key=k, iv=nonce, counter=ctr.to_bytes(4, "little"), nwords=rng.choice([1, 2, 3, 5]))
    return out


def run_stream_cases(c, cs):
    res = CL.run_script("zucdrv", ["zucdrv.c", "vh.c"], cs, tag="c04z")
    execs = []
    for case, evs, san in res:
        k = "zucdrv:%s:%s:%s" % (case["f"], case.get("api"), ":".join("%s=%s" % (kk, (vv if len(str(vv)) < 20 else "len%d" % (len(str(vv)) // 2))) for kk, vv in case.items() if kk not in ("f", "api", "id", "key")))
        c.count(1, k)
        if san or not evs:
            c.violation(k + ":crash", "driver died / sanitizer report: %s" % san, {"case": case})
            continue
        execs.append((k, case, CL.annotate(evs)))
    rej, states = vlib.validate("CryptoTrace", [e[2] for e in execs], tag="c04z", timeout=1500, max_reject=12)
    c.cov["traces_validated_against_impl"] += len(execs)
    c.cov["trace_states"] = c.cov.get("trace_states", 0) + states
    for i, j, ev in rej:
        k, case, evs = execs[i]
        short = {kk: (vv if kk not in ("T", "in", "out") else "<%d>" % len(vv)) for kk, vv in ev.items()}
        c.violation(k, "output differs from the stream cipher / MAC definition over the reference keystream (event #%d %s)" % (j, json.dumps(short)[:300]),
                    {"case": case, "event_index": j, "events": [{kk: vv for kk, vv in e.items() if kk != "T"} for e in evs]})
    return execs


def cli_part(c, prop, which, tag):
    """the command line tools as a user runs them (tools/clilib.py): files of sizes around the tools' 4096-byte buffer, both ways, judged by CryptoTrace.tla"""
    import clilib
    sizes = [0, 1, 15, 16, 17, 4080, 4095, 4096, 4097, 4111, 4112, 4113, 8191, 8192, 8193, 10000] + ([] if c.quick else [12287, 12288, 12289, 16383, 16384, 16385, 65535, 65536, 65537, 100000])
    runs = clilib.sweep(c, prop, which, sizes, tag)
    rej, states = vlib.validate("CryptoTrace", [evs for _, evs in runs], tag=tag + "cli", timeout=900)
    c.cov["cli_runs"] = len(runs)
    c.cov["traces_validated_against_impl"] = c.cov.get("traces_validated_against_impl", 0) + len(runs)
    for i, j, ev in rej:
        key, evs = runs[i]
        what = ("a modified protected file was accepted by `gmssl %s -decrypt`" % ev.get("f", "")[4:]) if ev.get("e") == "CliTamper" else \
               "`gmssl %s`: a %d-byte file did not come back from encrypt + decrypt, or the protected file differs from the reference construction (rc %s/%s, same=%s, refsame=%s, %d -> %d -> %d bytes)" % (
                   ev.get("f", "")[4:], ev.get("n", -1), ev.get("rc1"), ev.get("rc2"), ev.get("same"), ev.get("refsame"), ev.get("n", -1), ev.get("midlen", -1), ev.get("outlen", -1))
        c.violation(key + (":" + ev.get("what", "") if ev.get("e") == "CliTamper" else ""), what, {"events": evs})


def body():
    c = Check("C04", "model_checking")
    for kind in ("enc", "dec", "aead"):
        c.add_model(vlib.tlc_model("Stream", "Stream_" + kind, coverage=False), "Stream Kind=%s B=3 TagLen=2 MaxLen=11, all chunkings" % kind)
    chunkings, r = CL.tlc_chunkings("enc")
    c.cov["tlc_runs"].append({"model": "Stream behaviour generation (enc)", "behaviours": len(chunkings), "states": r["states"]})
    cs = gen(c, chunkings)
    log("[C04] %d cases" % len(cs))
    execs = run_cases(c, cs)
    zs = stream_cipher_cases(c, chunkings)
    log("[C04] %d stream cipher cases" % len(zs))
    run_stream_cases(c, zs)
    if True:            # other SM4 back ends (ENABLE_SMALL_FOOTPRINT, ENABLE_SM4_AESNI, ENABLE_SM4_AVX2): a slice of the same cases in both tiers
        for variant in ("small", "aesni", "avx2"):
            try:
                run_cases(c, cs[::6] if c.quick else cs[::4], variant=variant, tag="c04" + variant)
            except RuntimeError as ex:
                c.note("variant %s not run: %s" % (variant, str(ex)[:200]))
    cli_part(c, "C04", ["sm4_ecb", "sm4_cbc", "sm4_ctr", "sm4_ofb", "sm4_cfb", "zuc"], "c04")
    for k, case, evs in execs[:1] + execs[len(execs) // 2:len(execs) // 2 + 1]:
        c.sample({"case": {kk: (vv if len(str(vv)) < 70 else str(vv)[:67] + "...") for kk, vv in case.items()},
                  "events": [json.dumps({kk: (vv if kk not in ("T", "in", "out", "key", "iv", "aad") else "<%d>" % len(vv)) for kk, vv in e.items()})[:220] for e in evs]})
    return c.finish(
        rule="cases = (mode, cipher, API style, parameter classes, length, chunking); streaming cases use the chunkings TLC generates from Stream.tla scaled to 16-byte blocks; "
             "one-shot cases cover every length 0..%d; distinct = distinct case keys; TLC judges each execution by recomputing the mode from Modes.tla" % (80 if c.quick else 1100),
        trusted=["TLC", "ref/sm4ref.py, ref/aesref.py block functions, ref/gf128ref.py multiplication, ref/zucref.py, ref/chacharef.py keystream generators (self-tested against standard vectors)", "harness/modedrv.c, harness/zucdrv.c"],
        assumptions=["the ZUC / ChaCha20 keystream generators are primitives (reference tables); encryption, EEA3 bit handling, EIA3 / ZUC-256 MAC bit windows, IV layouts and the block counter are computed by TLC"])


if __name__ == "__main__":
    main(body)
